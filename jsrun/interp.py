"""jsrun: a tree-walking interpreter for the ECMAScript subset used by /repo/js/src, over symrun values.

The ESTree of each source file is produced by node's bundled acorn (jsrun/estree.js) from the
file as it is in /repo NOW; nothing of the JavaScript is transcribed by hand.  Numbers are
python int / float or SymInt / SymFloat, strings are str or SymStr, so the JavaScript functions
run on the same symbolic inputs, in the same engine path, as their Python twins loaded by
symrun.hook.  Whatever the interpreter does not model raises engine.Unsupported (the run is
inconclusive, never silently wrong); every counterexample is replayed under the real node.
"""
import json
import math
import os
import re
import subprocess
import decimal

import z3

from symrun import engine as E
from symrun.values import SymBool, SymInt, SymFloat, realval, fpval
from symrun.strings import SymStr, _mk, cell_test, cell_is, cell_in, digit_value, cell_digit_term, Cell
from symrun import shadow

HERE = os.path.dirname(os.path.abspath(__file__))
JS_WS = '\t\n\x0b\x0c\r \xa0\u1680\u2000\u2001\u2002\u2003\u2004\u2005\u2006\u2007\u2008\u2009\u200a\u2028\u2029\u202f\u205f\u3000\ufeff'


class Undefined:
    __slots__ = ()

    def __repr__(self):
        return 'undefined'

    def __bool__(self):
        return False


UNDEF = Undefined()
NAN = float('nan')


class JSThrow(Exception):
    def __init__(self, value):
        Exception.__init__(self, js_error_text(value))
        self.value = value


def js_error_text(v):
    if isinstance(v, JSObject) and 'message' in v.props:
        m = v.props['message']
        return '%s: %s' % (v.props.get('name', 'Error'), m if isinstance(m, str) else '<symbolic text>')
    return repr(v)


def unsupported(what):
    raise E.Unsupported('jsrun: ' + what)


# ------------------------------------------------------------------ objects
class JSObject:
    cls = 'Object'

    def __init__(self, props=None):
        self.props = dict(props or {})
        self.getters = {}

    def get(self, key, interp):
        if key in self.props:
            return self.props[key]
        if key in self.getters:
            return self.getters[key].call(self, [], interp)
        return UNDEF

    def keys(self):
        return list(self.props.keys())


class JSArray(JSObject):
    cls = 'Array'

    def __init__(self, items=None):
        JSObject.__init__(self)
        self.items = list(items or [])

    def keys(self):
        return [str(i) for i, v in enumerate(self.items) if v is not HOLE] + list(self.props.keys())


class Hole:
    def __repr__(self):
        return '<hole>'


HOLE = Hole()


class JSRegExp(JSObject):
    cls = 'RegExp'

    def __init__(self, source, flags):
        JSObject.__init__(self)
        self.source = source
        self.flags = flags
        self.last_index = 0
        self._py = None

    @property
    def py(self):
        if self._py is None:
            self._py = re.compile(js_regex_to_py(self.source), (re.I if 'i' in self.flags else 0) | (re.M if 'm' in self.flags else 0) | (re.S if 's' in self.flags else 0))
        return self._py


def js_regex_to_py(src):
    """JavaScript (non-unicode mode) pattern -> python re with the same language on BMP text: \\d \\w \\s are ASCII/JS sets, $ is end of input"""
    out = []
    i = 0
    in_class = False
    n = len(src)
    ws = '\\t\\n\\x0b\\x0c\\r \\xa0\\u1680\\u2000-\\u200a\\u2028\\u2029\\u202f\\u205f\\u3000\\ufeff'
    while i < n:
        c = src[i]
        if c == '\\' and i + 1 < n:
            d = src[i + 1]
            if d == 'd':
                out.append('0-9' if in_class else '[0-9]')
            elif d == 'D':
                if in_class:
                    unsupported('\\D inside a character class')
                out.append('[^0-9]')
            elif d == 'w':
                out.append('A-Za-z0-9_' if in_class else '[A-Za-z0-9_]')
            elif d == 'W':
                if in_class:
                    unsupported('\\W inside a character class')
                out.append('[^A-Za-z0-9_]')
            elif d == 's':
                out.append(ws if in_class else '[' + ws + ']')
            elif d == 'S':
                if in_class:
                    unsupported('\\S inside a character class')
                out.append('[^' + ws + ']')
            elif d == 'b' and not in_class:
                out.append('(?:(?<![A-Za-z0-9_])(?=[A-Za-z0-9_])|(?<=[A-Za-z0-9_])(?![A-Za-z0-9_]))')
            elif d in 'kpPB' or d.isdigit():
                unsupported('regex escape \\%s' % d)
            else:
                out.append('\\' + d)
            i += 2
            continue
        if in_class:
            if c == ']':
                in_class = False
            elif c == '[':
                out.append('\\[')
                i += 1
                continue
            out.append(c)
        elif c == '[':
            in_class = True
            out.append(c)
            if i + 1 < n and src[i + 1] == '^':
                out.append('^')
                i += 1
            if i + 1 < n and src[i + 1] == ']':
                unsupported('empty character class')
        elif c == '$':
            out.append('(?!.|\\n)' if True else '$')
        elif c == '(' and src.startswith('(?<', i) and not src.startswith('(?<=', i) and not src.startswith('(?<!', i):
            out.append('(?P<')
            i += 3
            continue
        else:
            out.append(c)
        i += 1
    return ''.join(out)


class JSFunction(JSObject):
    cls = 'Function'

    def __init__(self, node, scope, this=None, arrow=False, name=''):
        JSObject.__init__(self)
        self.node = node
        self.scope = scope
        self.arrow = arrow
        self.this = this
        self.name = name

    def call(self, this, args, interp):
        return interp.call_function(self, this, args)


class Native(JSObject):
    cls = 'Function'

    def __init__(self, fn, name=''):
        JSObject.__init__(self)
        self.fn = fn
        self.name = name

    def call(self, this, args, interp):
        return self.fn(this, args)


class Scope:
    __slots__ = ('vars', 'parent', 'consts')

    def __init__(self, parent=None):
        self.vars = {}
        self.parent = parent
        self.consts = set()

    def lookup(self, name):
        s = self
        while s is not None:
            if name in s.vars:
                return s
            s = s.parent
        return None


# ------------------------------------------------------------------ conversions
def is_num(v):
    return (isinstance(v, (int, float)) and not isinstance(v, bool)) or isinstance(v, (SymInt, SymFloat)) or hasattr(v, '_js_number')


def is_str(v):
    return isinstance(v, (str, SymStr))


def js_typeof(v):
    if v is UNDEF:
        return 'undefined'
    if v is None:
        return 'object'
    if isinstance(v, (bool, SymBool)):
        return 'boolean'
    if is_num(v):
        return 'number'
    if is_str(v):
        return 'string'
    if isinstance(v, (JSFunction, Native)):
        return 'function'
    return 'object'


def num_to_str(x):
    """Number::toString(10) of a concrete number"""
    if isinstance(x, bool):
        return 'true' if x else 'false'
    if isinstance(x, int):
        if abs(x) >= 10 ** 21:
            return num_to_str(float(x))
        return str(x)
    if x != x:
        return 'NaN'
    if x in (float('inf'), float('-inf')):
        return 'Infinity' if x > 0 else '-Infinity'
    if x == 0:
        return '0'
    if x < 0:
        return '-' + num_to_str(-x)
    d = decimal.Decimal(repr(x))
    sign, digits, exp = d.as_tuple()
    digits = list(digits)
    while len(digits) > 1 and digits[-1] == 0:
        digits.pop()
        exp += 1
    k = len(digits)
    n = k + exp
    ds = ''.join(map(str, digits))
    if k <= n <= 21:
        return ds + '0' * (n - k)
    if 0 < n <= 21:
        return ds[:n] + '.' + ds[n:]
    if -6 < n <= 0:
        return '0.' + '0' * (-n) + ds
    e = n - 1
    es = ('+' if e >= 0 else '-') + str(abs(e))
    if k == 1:
        return ds + 'e' + es
    return ds[0] + '.' + ds[1:] + 'e' + es


_NUM_RE = re.compile(r'[+-]?(?:Infinity|(?:[0-9]+\.?[0-9]*|\.[0-9]+)(?:[eE][+-]?[0-9]+)?)\Z')


def str_to_num(s):
    """StringToNumber of a concrete string"""
    t = s.strip(JS_WS)
    if t == '':
        return 0
    if re.match(r'0[xX][0-9a-fA-F]+\Z', t):
        return int(t, 16)
    if re.match(r'0[oO][0-7]+\Z', t):
        return int(t[2:], 8)
    if re.match(r'0[bB][01]+\Z', t):
        return int(t[2:], 2)
    if not _NUM_RE.match(t):
        return NAN
    if 'Infinity' in t:
        return float('-inf') if t[0] == '-' else float('inf')
    if re.match(r'[+-]?[0-9]+\Z', t):
        v = int(t)
        return v if abs(v) < 2 ** 53 else float(v)
    return float(t)


def symstr_prefix_number(s, whole, allow_frac=True):
    """numeric value of a SymStr: whole=True is StringToNumber (the whole text must be a decimal literal, '' is 0),
    whole=False is parseFloat / parseInt (longest prefix).  Builds the same terms as symrun's float() / int() shadows."""
    cells = list(SymStr.lift(SymStr(SymStr.lift(s).cells).strip(JS_WS) if whole else SymStr(SymStr.lift(s).cells).lstrip(JS_WS)).cells) \
        if not isinstance(s, str) else list(s)
    if not cells:
        return 0 if whole else NAN
    sign = 1
    if cell_in(cells[0], '+-'):
        if cell_is(cells[0], '-'):
            sign = -1
        cells = cells[1:]
    total = z3.IntVal(0)
    seen_dot = False
    nfrac = 0
    ndig = 0
    for c in cells:
        if cell_test(c, lambda ch: ch in '0123456789'):
            total = total * 10 + cell_digit_term(c)
            ndig += 1
            if seen_dot:
                nfrac += 1
        elif allow_frac and not seen_dot and cell_is(c, '.'):
            seen_dot = True
        else:
            if cell_in(c, 'eEIxXoObB') and (whole or ndig):
                unsupported('number text with exponent / Infinity / radix-prefix possibilities')
            if whole:
                return NAN
            break
    if ndig == 0:
        return NAN
    total = z3.simplify(total)
    if ndig > 15:
        unsupported('number text of more than 15 digits')
    if not allow_frac or not seen_dot:
        # an integer literal of at most 15 digits is exactly a double: kept as an integer (same value, prints without a fraction)
        total = z3.simplify(total * sign) if sign != 1 else total
        if z3.is_int_value(total):
            return total.as_long()
        return SymInt(z3.Int2BV(total, 64)) if E.cur().int_bv else SymInt(total)
    return shadow.float_from_parts(sign, total, nfrac)


def to_number(v):
    if isinstance(v, bool):
        return 1 if v else 0
    if isinstance(v, (int, float, SymInt, SymFloat)):
        return v
    if hasattr(v, '_js_number'):
        return v
    if v is UNDEF:
        return NAN
    if v is None:
        return 0
    if isinstance(v, str):
        return str_to_num(v)
    if isinstance(v, SymStr):
        c = v.simplify()
        if isinstance(c, str):
            return str_to_num(c)
        return symstr_prefix_number(v, True)
    if isinstance(v, SymBool):
        return shadow.conv_int(v)
    if isinstance(v, JSArray):
        return to_number(to_string(v))
    return NAN


def to_string(v):
    if isinstance(v, (str, SymStr)):
        return v
    if v is UNDEF:
        return 'undefined'
    if v is None:
        return 'null'
    if isinstance(v, bool):
        return 'true' if v else 'false'
    if isinstance(v, (int, float)):
        return num_to_str(v)
    if isinstance(v, SymInt):
        return shadow.render_int(v)
    if hasattr(v, '_js_str'):
        return v._js_str()
    if isinstance(v, SymFloat):
        unsupported('string of a symbolic double')
    if isinstance(v, SymBool):
        return 'true' if bool(v) else 'false'
    if isinstance(v, JSArray):
        return join_strs([('' if (x is UNDEF or x is None or x is HOLE) else to_string(x)) for x in v.items], ',')
    if isinstance(v, JSRegExp):
        return '/%s/%s' % (v.source, v.flags)
    if isinstance(v, (JSFunction, Native)):
        return 'function %s() { [code] }' % v.name
    if isinstance(v, JSObject):
        if 'message' in v.props and v.cls == 'Error':
            return join_strs([v.props.get('name', 'Error'), ': ', to_string(v.props['message'])], '')
        return '[object Object]'
    unsupported('ToString of %r' % type(v).__name__)


def join_strs(parts, sep):
    out = []
    for i, p in enumerate(parts):
        if i and sep:
            out.extend(list(sep))
        out.extend(SymStr.lift(p).cells if not isinstance(p, str) else list(p))
    return _mk(out)


def truthy(v):
    if v is UNDEF or v is None:
        return False
    if isinstance(v, bool):
        return v
    if isinstance(v, SymBool):
        return bool(v)
    if isinstance(v, float):
        return v == v and v != 0
    if isinstance(v, int):
        return v != 0
    if isinstance(v, (SymInt, SymFloat)):
        return bool(v != 0)
    if isinstance(v, (str, SymStr)):
        return len(v) > 0
    if hasattr(v, '_js_truthy'):
        return v._js_truthy()
    return True


def is_nan(v):
    return isinstance(v, float) and v != v


def prop_key(k):
    if isinstance(k, (SymInt, SymStr)):
        from symrun.values import concretize_int
        if isinstance(k, SymStr):
            c = k.simplify()
            if isinstance(c, str):
                return c
            unsupported('symbolic property name')
        t = z3.simplify(k.term)
        if z3.is_int_value(t) or z3.is_bv_value(t):
            return t.as_long()
        unsupported('symbolic index')
    if isinstance(k, float):
        return int(k) if k == int(k) else num_to_str(k)
    if isinstance(k, bool):
        return 'true' if k else 'false'
    if k is UNDEF:
        return 'undefined'
    if k is None:
        return 'null'
    return k


def strict_equals(a, b):
    if a is UNDEF or b is UNDEF:
        return a is b
    if a is None or b is None:
        return a is b
    if is_num(a) and is_num(b):
        if is_nan(a) or is_nan(b):
            return False
        return a == b
    if is_str(a) and is_str(b):
        return a == b
    if isinstance(a, (bool, SymBool)) and isinstance(b, (bool, SymBool)):
        return a == b
    if isinstance(a, JSObject) and isinstance(b, JSObject):
        return a is b
    return False


def loose_equals(a, b):
    if (a is UNDEF or a is None) and (b is UNDEF or b is None):
        return True
    if a is UNDEF or a is None or b is UNDEF or b is None:
        return False
    if (is_num(a) and is_num(b)) or (is_str(a) and is_str(b)) or (isinstance(a, (bool, SymBool)) and isinstance(b, (bool, SymBool))):
        return strict_equals(a, b)
    if isinstance(a, JSObject) and isinstance(b, JSObject):
        return a is b
    if isinstance(a, JSObject):
        a = to_string(a)
    if isinstance(b, JSObject):
        b = to_string(b)
    return strict_equals(to_number(a), to_number(b))


def make_error(name, msg):
    o = JSObject({'name': name, 'message': msg})
    o.cls = 'Error'
    return o


def throw_type_error(msg):
    raise JSThrow(make_error('TypeError', msg))


# ------------------------------------------------------------------ parseInt / parseFloat / trunc
QUOTIENT_LEMMA_DIVISORS = (60,)


class IntQuotient(SymFloat):
    """a / c for a symbolic integer a and a concrete positive integer c: still the rounded real quotient, but remembers its
    operands so that parseInt of it can be read as the integer quotient (lemma discharged by the check for the divisors above)"""
    __slots__ = ('num', 'den', '_t')

    def __init__(self, num, den):
        self.num, self.den, self._t = num, den, None

    @property
    def term(self):
        # the rounded real quotient is only built when something other than parseInt looks at it
        if self._t is None:
            self._t = (self.num / self.den).term
        return self._t

    @property
    def ieee(self):
        return False


def js_parse_int_number(x):
    """parseInt(number): the number is first rendered as text.  For 1e-6 <= |x| < 1e21 (and 0) that is trunc(x); a smaller
    non-zero magnitude is rendered with an exponent ('5e-7') and parseInt returns its leading digit."""
    if isinstance(x, int):
        return x if abs(x) < 10 ** 21 else js_parse_int_str(num_to_str(x))
    if isinstance(x, float):
        return js_parse_int_str(num_to_str(x))
    if isinstance(x, SymInt):
        return x
    if hasattr(x, '_sx_int'):
        return x._sx_int()
    eng = E.cur()
    if isinstance(x, IntQuotient) and x.den in QUOTIENT_LEMMA_DIVISORS and not x.num.bv:
        inside = SymBool(z3.And(x.num.term >= 0, x.num.term < 2 ** 32))
        if bool(inside):
            return x.num // x.den
        unsupported('parseInt(a / %d) with a outside 0 .. 2**32' % x.den)
    if x.ieee:
        a = z3.fpAbs(x.term)
        tiny = z3.And(z3.fpGT(a, fpval(0.0)), z3.fpLT(a, fpval(1e-6)))
        big = z3.Not(z3.fpLT(a, fpval(1e21)))
    else:
        a = z3.If(x.term >= 0, x.term, -x.term)
        tiny = z3.And(a > 0, a < realval(1e-6))
        big = a >= realval(1e21)
    if bool(SymBool(big)):
        unsupported('parseInt of a number of 1e21 or more (or NaN)')
    if bool(SymBool(tiny)):
        d = z3.Int(eng.fresh_name('lead'))
        eng.add(z3.And(d >= 1, d <= 9))
        eng.overapprox_used = True
        neg = bool(x < 0)
        return SymInt(-d if neg else d) if not eng.int_bv else SymInt(z3.Int2BV(-d if neg else d, 64))
    return x.__trunc__()


def js_parse_int_str(s):
    if isinstance(s, SymStr):
        c = s.simplify()
        if not isinstance(c, str):
            return symstr_prefix_number(s, False, allow_frac=False)
        s = c
    m = re.match(r'[%s]*([+-]?)([0-9]+)' % re.escape(JS_WS), s)
    if not m:
        return NAN
    v = int(m.group(2))
    return -v if m.group(1) == '-' else v


def js_parse_float(s):
    if is_num(s):
        return s
    s = to_string(s)
    if isinstance(s, SymStr):
        c = s.simplify()
        if not isinstance(c, str):
            return symstr_prefix_number(s, False)
        s = c
    m = re.match(r'[%s]*([+-]?(?:Infinity|(?:[0-9]+\.?[0-9]*|\.[0-9]+)(?:[eE][+-]?[0-9]+)?))' % re.escape(JS_WS), s)
    if not m:
        return NAN
    t = m.group(1)
    if 'Infinity' in t:
        return float('-inf') if t[0] == '-' else float('inf')
    if re.match(r'[+-]?[0-9]+\Z', t):
        return int(t)
    return float(t)


def js_to_fixed(x, digits):
    if hasattr(x, '_js_to_fixed'):
        return x._js_to_fixed(digits)
    if isinstance(x, (SymInt,)):
        s = shadow.render_int(x)
        return join_strs([s, '.' + '0' * digits] if digits else [s], '')
    if isinstance(x, SymFloat):
        from symrun import dtoa
        return dtoa.format_fixed(x, digits)
    if isinstance(x, int):
        x = float(x)
    if x != x:
        return 'NaN'
    if abs(x) >= 1e21:
        return num_to_str(x)
    # toFixed: n / 10**f as close as possible to x; of two equally close the larger n (exact decimal expansion of the double)
    d = decimal.Decimal(x)
    q = d.quantize(decimal.Decimal(1).scaleb(-digits), rounding=decimal.ROUND_HALF_UP if x >= 0 else decimal.ROUND_HALF_DOWN)
    s = format(q, 'f')
    if q == 0 and (x < 0 or math.copysign(1, x) < 0) and x != 0:
        s = '-' + s.lstrip('-')
    elif q == 0:
        s = s.lstrip('-')
    return s


def single_char_pred(rx):
    """predicate on one character for a regex that is a single character matcher, else None"""
    src = rx.source
    if re.fullmatch(r'\\.|[^\\\[\](){}.*+?|^$]|\[(?:\\.|[^\]\\])+\]', src):
        p = rx.py
        return lambda ch: p.fullmatch(ch) is not None
    return None


def regex_literal_text(rx):
    if re.fullmatch(r'(?:[^\\\[\](){}.*+?|^$]|\\[^dDwWsSbB0-9])+', rx.source) and 'i' not in rx.flags:
        return re.sub(r'\\(.)', r'\1', rx.source)
    return None


def concrete_str(s, what):
    if isinstance(s, SymStr):
        c = s.simplify()
        if isinstance(c, str):
            return c
        unsupported('%s on a symbolic string' % what)
    return s


def match_to_array(m, s):
    a = JSArray([m.group(0)] + [(UNDEF if g is None else g) for g in m.groups()])
    a.props['index'] = m.start()
    a.props['input'] = s
    gd = m.groupdict()
    a.props['groups'] = JSObject({k: (UNDEF if v is None else v) for k, v in gd.items()}) if gd else UNDEF
    return a


# ------------------------------------------------------------------ the interpreter
class Interp:
    def __init__(self, src_dir):
        self.src_dir = src_dir
        self.modules = {}
        self.global_scope = Scope()
        self.functions_entered = set()
        self._install_globals()

    # ---- modules
    def ast_of(self, path):
        cache = self.__dict__.setdefault('_ast_cache', {})
        if path not in cache:
            cache[path] = self._ast_of(path)
        return cache[path]

    def reset_modules(self):
        """evaluate every loaded module again from its (cached) syntax tree: module-level state of the JavaScript side - a memo object, a
        flag - is back to that of a fresh `require`; called before every symbolic path"""
        names = list(self.__dict__.get('_loaded_names', []))
        self.modules = {}
        for n in names:
            self.load(n)

    def _ast_of(self, path):
        out = subprocess.run(['node', '--expose-internals', os.path.join(HERE, 'estree.js'), path], capture_output=True, text=True, timeout=120)
        if out.returncode != 0:
            raise RuntimeError('cannot parse %s: %s' % (path, out.stderr[-400:]))
        return json.loads(out.stdout)

    def load(self, name):
        path = os.path.normpath(os.path.join(self.src_dir, name))
        if path in self.modules:
            return self.modules[path]['module'].props['exports']
        ln = self.__dict__.setdefault('_loaded_names', [])
        if name not in ln and not os.path.isabs(name):
            ln.append(name)
        ast = self.ast_of(path)
        module = JSObject({'exports': JSObject()})
        self.modules[path] = {'module': module, 'ast': ast}
        scope = Scope(self.global_scope)
        scope.vars['module'] = module
        scope.vars['exports'] = module.props['exports']
        self.cur_file = os.path.basename(path)
        self.file_of_scope = getattr(self, 'file_of_scope', {})
        self.hoist(ast['body'], scope, path)
        for st in ast['body']:
            c = self.exec_stmt(st, scope, UNDEF)
            if c is not None:
                break
        self.modules[path]['scope'] = scope
        return module.props['exports']

    # ---- globals
    def _install_globals(self):
        g = self.global_scope.vars
        I = self

        def nat(name):
            def deco(f):
                n = Native(f, name)
                return n
            return deco
        g['undefined'] = UNDEF
        g['NaN'] = NAN
        g['Infinity'] = float('inf')
        g['parseInt'] = Native(lambda this, a: self._parse_int(a), 'parseInt')
        g['parseFloat'] = Native(lambda this, a: js_parse_float(a[0] if a else UNDEF), 'parseFloat')
        g['isNaN'] = Native(lambda this, a: is_nan(to_number(a[0] if a else UNDEF)), 'isNaN')
        number = Native(lambda this, a: to_number(a[0]) if a else 0, 'Number')
        number.props['isNaN'] = Native(lambda this, a: is_nan(a[0]) if a else False)
        number.props['isInteger'] = Native(lambda this, a: isinstance(a[0], int) or (isinstance(a[0], float) and a[0] == int(a[0])) if a else False)
        number.props['parseFloat'] = g['parseFloat']
        number.props['parseInt'] = g['parseInt']
        g['Number'] = number
        g['String'] = Native(lambda this, a: to_string(a[0]) if a else '', 'String')
        g['Boolean'] = Native(lambda this, a: truthy(a[0]) if a else False, 'Boolean')
        err = Native(lambda this, a: make_error('Error', to_string(a[0]) if a and a[0] is not UNDEF else ''), 'Error')
        g['Error'] = err
        g['TypeError'] = Native(lambda this, a: make_error('TypeError', to_string(a[0]) if a else ''), 'TypeError')
        g['RangeError'] = Native(lambda this, a: make_error('RangeError', to_string(a[0]) if a else ''), 'RangeError')
        arr = Native(lambda this, a: self._array_ctor(a), 'Array')
        arr.props['isArray'] = Native(lambda this, a: isinstance(a[0], JSArray) if a else False)
        g['Array'] = arr
        obj = Native(lambda this, a: JSObject(), 'Object')
        obj.props['keys'] = Native(lambda this, a: JSArray(self._own_keys(a[0])))
        obj.props['values'] = Native(lambda this, a: JSArray([self.get_member(a[0], k) for k in self._own_keys(a[0])]))
        obj.props['entries'] = Native(lambda this, a: JSArray([JSArray([k, self.get_member(a[0], k)]) for k in self._own_keys(a[0])]))
        obj.props['assign'] = Native(lambda this, a: self._assign(a))
        g['Object'] = obj
        g['RegExp'] = Native(lambda this, a: a[0] if (a and isinstance(a[0], JSRegExp)) else JSRegExp(to_string(a[0]) if a and a[0] is not UNDEF else '(?:)', to_string(a[1]) if len(a) > 1 and a[1] is not UNDEF else ''), 'RegExp')
        m = JSObject()
        m.props['max'] = Native(lambda this, a: self._minmax(a, True))
        m.props['min'] = Native(lambda this, a: self._minmax(a, False))
        m.props['floor'] = Native(lambda this, a: self._round(a[0], math.floor, '__floor__'))
        m.props['ceil'] = Native(lambda this, a: self._round(a[0], math.ceil, '__ceil__'))
        m.props['trunc'] = Native(lambda this, a: self._round(a[0], math.trunc, '__trunc__'))
        m.props['abs'] = Native(lambda this, a: abs(to_number(a[0])))
        m.props['round'] = Native(lambda this, a: self._math_round(a[0]))
        m.props['pow'] = Native(lambda this, a: to_number(a[0]) ** to_number(a[1]))
        m.props['sqrt'] = Native(lambda this, a: to_number(a[0]) ** 0.5)
        g['Math'] = m
        g['console'] = JSObject({'log': Native(lambda this, a: UNDEF), 'warn': Native(lambda this, a: UNDEF), 'error': Native(lambda this, a: UNDEF)})

    def _assign(self, a):
        t = a[0]
        for s in a[1:]:
            if isinstance(s, JSObject):
                for k in s.keys():
                    t.props[k] = s.get(k, self)
        return t

    def _own_keys(self, o):
        if isinstance(o, JSObject):
            return o.keys()
        if isinstance(o, (str, SymStr)):
            return [str(i) for i in range(len(o))]
        throw_type_error('Cannot convert undefined or null to object')

    def _array_ctor(self, a):
        if len(a) == 1 and is_num(a[0]):
            n = prop_key(a[0])
            if not isinstance(n, int) or n < 0:
                raise JSThrow(make_error('RangeError', 'Invalid array length'))
            if n > 100000:
                unsupported('array of %d holes' % n)
            return JSArray([HOLE] * n)
        return JSArray(a)

    def _parse_int(self, a):
        x = a[0] if a else UNDEF
        radix = a[1] if len(a) > 1 else UNDEF
        if radix is not UNDEF and radix != 10:
            unsupported('parseInt with radix %r' % (radix,))
        if is_num(x):
            return js_parse_int_number(x)
        s = to_string(x)
        if radix is UNDEF and isinstance(s, str) and re.match(r'\s*[+-]?0[xX]', s):
            unsupported('parseInt of hexadecimal text without a radix')
        return js_parse_int_str(s)

    def _minmax(self, a, mx):
        if not a:
            return float('-inf') if mx else float('inf')
        vals = [to_number(x) for x in a]
        if any(is_nan(v) for v in vals):
            return NAN
        return shadow.sx_max(*vals) if mx else shadow.sx_min(*vals)

    def _round(self, x, f, meth):
        x = to_number(x)
        if isinstance(x, (int, SymInt)):
            return x
        if isinstance(x, float):
            if x != x or x in (float('inf'), float('-inf')):
                return x
            return f(x)
        return getattr(x, meth)()

    def _math_round(self, x):
        x = to_number(x)
        if isinstance(x, (int, SymInt)):
            return x
        if isinstance(x, float):
            return math.floor(x + 0.5) if x == x and abs(x) != float('inf') else x
        return (x + 0.5).__floor__()

    # ---- scoping
    def hoist(self, body, scope, file=None):
        """var declarations and function declarations of one function body / module"""
        def walk(n):
            if isinstance(n, list):
                for x in n:
                    walk(x)
                return
            if not isinstance(n, dict):
                return
            t = n.get('type')
            if t in ('FunctionExpression', 'ArrowFunctionExpression', 'ClassDeclaration', 'ClassExpression'):
                return
            if t == 'FunctionDeclaration':
                return
            if t == 'VariableDeclaration' and n['kind'] == 'var':
                for d in n['declarations']:
                    for name in self.pattern_names(d['id']):
                        scope.vars.setdefault(name, UNDEF)
            for k, v in n.items():
                if k in ('type', 'loc'):
                    continue
                if isinstance(v, (dict, list)):
                    walk(v)
        walk(body)
        for st in body:
            if st.get('type') == 'FunctionDeclaration':
                scope.vars[st['id']['name']] = JSFunction(st, scope, name=st['id']['name'])
            elif st.get('type') in ('ExportNamedDeclaration', 'ExportDefaultDeclaration') and st.get('declaration') and st['declaration'].get('type') == 'FunctionDeclaration':
                d = st['declaration']
                scope.vars[d['id']['name']] = JSFunction(d, scope, name=d['id']['name'])

    def pattern_names(self, p):
        t = p['type']
        if t == 'Identifier':
            return [p['name']]
        if t == 'ObjectPattern':
            out = []
            for pr in p['properties']:
                out += self.pattern_names(pr['value'] if pr['type'] == 'Property' else pr['argument'])
            return out
        if t == 'ArrayPattern':
            out = []
            for e in p['elements']:
                if e:
                    out += self.pattern_names(e)
            return out
        if t == 'AssignmentPattern':
            return self.pattern_names(p['left'])
        if t == 'RestElement':
            return self.pattern_names(p['argument'])
        unsupported('pattern %s' % t)

    def bind_pattern(self, p, value, scope, declare, const=False):
        t = p['type']
        if t == 'Identifier':
            if declare:
                scope.vars[p['name']] = value
                if const:
                    scope.consts.add(p['name'])
            else:
                self.assign_name(p['name'], value, scope)
        elif t == 'ObjectPattern':
            for pr in p['properties']:
                if pr['type'] != 'Property':
                    unsupported('object rest pattern')
                key = pr['key']['name'] if (pr['key']['type'] == 'Identifier' and not pr['computed']) else self.eval(pr['key'], scope, UNDEF)
                self.bind_pattern(pr['value'], self.get_member(value, key), scope, declare, const)
        elif t == 'ArrayPattern':
            for i, e in enumerate(p['elements']):
                if e:
                    self.bind_pattern(e, self.get_member(value, i), scope, declare, const)
        elif t == 'AssignmentPattern':
            if value is UNDEF:
                value = self.eval(p['right'], scope, UNDEF)
            self.bind_pattern(p['left'], value, scope, declare, const)
        else:
            unsupported('pattern %s' % t)

    def assign_name(self, name, value, scope):
        s = scope.lookup(name)
        if s is None:
            self.global_scope.vars[name] = value
            return
        if name in s.consts:
            throw_type_error('Assignment to constant variable.')
        s.vars[name] = value

    # ---- functions
    def call_function(self, f, this, args):
        node = f.node
        self.functions_entered.add(f.name or '<anonymous line %s>' % node.get('loc'))
        scope = Scope(f.scope)
        if f.arrow:
            this = f.this
        else:
            scope.vars['arguments'] = JSArray(list(args))
        for i, p in enumerate(node['params']):
            if p['type'] == 'RestElement':
                self.bind_pattern(p['argument'], JSArray(args[i:]), scope, True)
                break
            self.bind_pattern(p, args[i] if i < len(args) else UNDEF, scope, True)
        body = node['body']
        if body['type'] != 'BlockStatement':
            return self.eval(body, scope, this)
        self.hoist(body['body'], scope)
        c = self.exec_block(body['body'], scope, this)
        if c is not None and c[0] == 'return':
            return c[1]
        return UNDEF

    def call(self, f, this, args):
        if isinstance(f, (JSFunction, Native)):
            return f.call(this, args, self)
        throw_type_error('%s is not a function' % (to_string(f) if not isinstance(f, JSObject) else 'object'))

    # ---- statements: return None (normal) or ('return', v) / ('break', label) / ('continue', label)
    def exec_block(self, stmts, scope, this):
        for st in stmts:
            c = self.exec_stmt(st, scope, this)
            if c is not None:
                return c
        return None

    def exec_stmt(self, n, scope, this):
        t = n['type']
        if t == 'ExpressionStatement':
            self.eval(n['expression'], scope, this)
            return None
        if t == 'VariableDeclaration':
            for d in n['declarations']:
                if d['init'] is None:
                    if n['kind'] != 'var':
                        self.bind_pattern(d['id'], UNDEF, scope, True)
                    continue
                v = self.eval(d['init'], scope, this)
                if isinstance(v, JSFunction) and not v.name and d['id']['type'] == 'Identifier':
                    v.name = d['id']['name']
                if n['kind'] == 'var':
                    self.bind_pattern(d['id'], v, scope, False)
                else:
                    self.bind_pattern(d['id'], v, scope, True, const=(n['kind'] == 'const'))
            return None
        if t == 'FunctionDeclaration':
            return None
        if t == 'ReturnStatement':
            return ('return', self.eval(n['argument'], scope, this) if n['argument'] else UNDEF)
        if t == 'IfStatement':
            if truthy(self.eval(n['test'], scope, this)):
                return self.exec_stmt(n['consequent'], scope, this)
            if n['alternate']:
                return self.exec_stmt(n['alternate'], scope, this)
            return None
        if t == 'BlockStatement':
            return self.exec_block(n['body'], Scope(scope), this)
        if t == 'ForStatement':
            s = Scope(scope)
            if n['init']:
                if n['init']['type'] == 'VariableDeclaration':
                    self.exec_stmt(n['init'], s, this)
                else:
                    self.eval(n['init'], s, this)
            guard = 0
            while n['test'] is None or truthy(self.eval(n['test'], s, this)):
                guard += 1
                if guard > 100000:
                    unsupported('loop of more than 100000 iterations')
                c = self.exec_stmt(n['body'], s, this)
                if c is not None:
                    if c[0] == 'break':
                        break
                    if c[0] == 'return':
                        return c
                if n['update']:
                    self.eval(n['update'], s, this)
            return None
        if t in ('WhileStatement', 'DoWhileStatement'):
            guard = 0
            first = t == 'DoWhileStatement'
            while first or truthy(self.eval(n['test'], scope, this)):
                first = False
                guard += 1
                if guard > 100000:
                    unsupported('loop of more than 100000 iterations')
                c = self.exec_stmt(n['body'], scope, this)
                if c is not None:
                    if c[0] == 'break':
                        break
                    if c[0] == 'return':
                        return c
            return None
        if t in ('ForInStatement', 'ForOfStatement'):
            obj = self.eval(n['right'], scope, this)
            if t == 'ForInStatement':
                seq = self._own_keys(obj) if (obj is not UNDEF and obj is not None) else []
            else:
                if isinstance(obj, JSArray):
                    seq = [(UNDEF if x is HOLE else x) for x in obj.items]
                elif isinstance(obj, str):
                    seq = list(obj)
                else:
                    unsupported('for-of over %s' % type(obj).__name__)
            for k in seq:
                s = Scope(scope)
                left = n['left']
                if left['type'] == 'VariableDeclaration':
                    self.bind_pattern(left['declarations'][0]['id'], k, s if left['kind'] != 'var' else scope, left['kind'] != 'var')
                    if left['kind'] == 'var':
                        self.bind_pattern(left['declarations'][0]['id'], k, scope, False)
                else:
                    self.assign_target(left, k, scope, this)
                c = self.exec_stmt(n['body'], s, this)
                if c is not None:
                    if c[0] == 'break':
                        break
                    if c[0] == 'return':
                        return c
            return None
        if t == 'BreakStatement':
            if n.get('label'):
                unsupported('labelled break')
            return ('break', None)
        if t == 'ContinueStatement':
            if n.get('label'):
                unsupported('labelled continue')
            return ('continue', None)
        if t == 'ThrowStatement':
            raise JSThrow(self.eval(n['argument'], scope, this))
        if t == 'TryStatement':
            try:
                try:
                    c = self.exec_block(n['block']['body'], Scope(scope), this)
                except JSThrow as e:
                    if not n['handler']:
                        raise
                    s = Scope(scope)
                    if n['handler']['param']:
                        self.bind_pattern(n['handler']['param'], e.value, s, True)
                    c = self.exec_block(n['handler']['body']['body'], s, this)
            finally:
                if n['finalizer']:
                    fc = self.exec_block(n['finalizer']['body'], Scope(scope), this)
                    if fc is not None:
                        return fc
            return c
        if t == 'SwitchStatement':
            d = self.eval(n['discriminant'], scope, this)
            s = Scope(scope)
            matched = False
            for case in n['cases']:
                if not matched:
                    if case['test'] is None:
                        continue
                    if truthy(strict_equals(d, self.eval(case['test'], s, this))):
                        matched = True
                if matched:
                    c = self.exec_block(case['consequent'], s, this)
                    if c is not None:
                        return None if c[0] == 'break' else c
            if not matched:
                start = False
                for case in n['cases']:
                    if case['test'] is None:
                        start = True
                    if start:
                        c = self.exec_block(case['consequent'], s, this)
                        if c is not None:
                            return None if c[0] == 'break' else c
            return None
        if t == 'EmptyStatement':
            return None
        if t == 'ImportDeclaration':
            exports = self.load_relative(n['source']['value'])
            for sp in n['specifiers']:
                if sp['type'] == 'ImportSpecifier':
                    scope.vars[sp['local']['name']] = self.get_member(exports, sp['imported']['name'])
                elif sp['type'] == 'ImportDefaultSpecifier':
                    scope.vars[sp['local']['name']] = exports
                else:
                    scope.vars[sp['local']['name']] = exports
            return None
        if t == 'ExportNamedDeclaration':
            if n.get('declaration'):
                d = n['declaration']
                self.exec_stmt(d, scope, this)
                names = [d['id']['name']] if d['type'] == 'FunctionDeclaration' else [x for dd in d['declarations'] for x in self.pattern_names(dd['id'])]
                for nm in names:
                    scope.vars['module'].props['exports'].props[nm] = scope.vars[nm]
            for sp in n.get('specifiers', []):
                scope.vars['module'].props['exports'].props[sp['exported']['name']] = self.eval(sp['local'], scope, this)
            return None
        unsupported('statement %s (line %s)' % (t, n.get('loc')))

    def load_relative(self, spec):
        if not spec.startswith('.'):
            unsupported('import of package %r' % spec)
        return self.load(spec)

    # ---- expressions
    def eval(self, n, scope, this):
        t = n['type']
        if t == 'Literal':
            if 'regex' in n:
                return JSRegExp(n['regex']['pattern'], n['regex']['flags'])
            v = n['value']
            if isinstance(v, float) and v == int(v) and abs(v) < 2 ** 53 and re.fullmatch(r'[0-9]+', n.get('raw', '')):
                return int(v)
            return v
        if t == 'Identifier':
            s = scope.lookup(n['name'])
            if s is None:
                raise JSThrow(make_error('ReferenceError', '%s is not defined' % n['name']))
            return s.vars[n['name']]
        if t == 'ThisExpression':
            return this
        if t == 'TemplateLiteral':
            parts = []
            for i, q in enumerate(n['quasis']):
                parts.append(q['value']['cooked'])
                if i < len(n['expressions']):
                    parts.append(self.lazy_string(n['expressions'][i], scope, this))
            return LazyText(parts) if any(isinstance(p, LazyText) or callable(p) for p in parts) else join_strs(parts, '')
        if t == 'BinaryExpression':
            return self.binary(n['operator'], self.eval(n['left'], scope, this), self.eval(n['right'], scope, this))
        if t == 'LogicalExpression':
            l = self.eval(n['left'], scope, this)
            op = n['operator']
            if op == '&&':
                return self.eval(n['right'], scope, this) if truthy(l) else l
            if op == '||':
                return l if truthy(l) else self.eval(n['right'], scope, this)
            if op == '??':
                return self.eval(n['right'], scope, this) if (l is UNDEF or l is None) else l
        if t == 'UnaryExpression':
            op = n['operator']
            if op == 'typeof':
                if n['argument']['type'] == 'Identifier' and scope.lookup(n['argument']['name']) is None:
                    return 'undefined'
                return js_typeof(self.eval(n['argument'], scope, this))
            if op == 'delete':
                a = n['argument']
                if a['type'] == 'MemberExpression':
                    o = self.eval(a['object'], scope, this)
                    k = prop_key(self.eval(a['property'], scope, this) if a['computed'] else a['property']['name'])
                    if isinstance(o, JSObject):
                        o.props.pop(k, None)
                return True
            v = self.eval(n['argument'], scope, this)
            if op == '!':
                return not truthy(v)
            if op == '-':
                x = to_number(v)
                return -x
            if op == '+':
                return to_number(v)
            if op == 'void':
                return UNDEF
            unsupported('unary %s' % op)
        if t == 'ConditionalExpression':
            return self.eval(n['consequent'] if truthy(self.eval(n['test'], scope, this)) else n['alternate'], scope, this)
        if t == 'AssignmentExpression':
            op = n['operator']
            if op == '=':
                v = self.eval(n['right'], scope, this)
                if isinstance(v, JSFunction) and not v.name and n['left']['type'] == 'Identifier':
                    v.name = n['left']['name']
            else:
                cur = self.eval(n['left'], scope, this)
                if op in ('||=', '&&=', '??='):
                    unsupported('logical assignment')
                v = self.binary(op[:-1], cur, self.eval(n['right'], scope, this))
            self.assign_target(n['left'], v, scope, this)
            return v
        if t == 'UpdateExpression':
            cur = to_number(self.eval(n['argument'], scope, this))
            new = cur + 1 if n['operator'] == '++' else cur - 1
            self.assign_target(n['argument'], new, scope, this)
            return new if n['prefix'] else cur
        if t == 'MemberExpression':
            o = self.eval(n['object'], scope, this)
            k = self.eval(n['property'], scope, this) if n['computed'] else n['property']['name']
            if n.get('optional') and (o is UNDEF or o is None):
                return UNDEF
            return self.get_member(o, k)
        if t == 'ChainExpression':
            return self.eval(n['expression'], scope, this)
        if t == 'CallExpression':
            callee = n['callee']
            if callee['type'] == 'MemberExpression':
                o = self.eval(callee['object'], scope, this)
                k = self.eval(callee['property'], scope, this) if callee['computed'] else callee['property']['name']
                f = self.get_member(o, k)
                th = o
                if not isinstance(f, (JSFunction, Native)):
                    throw_type_error('%s is not a function' % (k if isinstance(k, str) else 'member'))
            else:
                f = self.eval(callee, scope, this)
                th = UNDEF
            args = self.eval_args(n['arguments'], scope, this)
            return self.call(f, th, args)
        if t == 'NewExpression':
            f = self.eval(n['callee'], scope, this)
            args = self.eval_args(n['arguments'], scope, this)
            if isinstance(f, Native):
                return f.call(UNDEF, args, self)
            if isinstance(f, JSFunction):
                o = JSObject()
                proto = f.props.get('prototype')
                if isinstance(proto, JSObject):
                    o.proto = proto
                r = f.call(o, args, self)
                return r if isinstance(r, JSObject) else o
            throw_type_error('not a constructor')
        if t == 'ArrayExpression':
            out = []
            for e in n['elements']:
                if e is None:
                    out.append(HOLE)
                elif e['type'] == 'SpreadElement':
                    v = self.eval(e['argument'], scope, this)
                    out.extend(v.items if isinstance(v, JSArray) else list(v))
                else:
                    out.append(self.eval(e, scope, this))
            return JSArray(out)
        if t == 'ObjectExpression':
            o = JSObject()
            for p in n['properties']:
                if p['type'] == 'SpreadElement':
                    v = self.eval(p['argument'], scope, this)
                    if isinstance(v, JSObject):
                        for k in v.keys():
                            o.props[k] = v.get(k, self)
                    continue
                if p['computed']:
                    key = prop_key(self.eval(p['key'], scope, this))
                elif p['key']['type'] == 'Identifier':
                    key = p['key']['name']
                else:
                    key = prop_key(p['key']['value'])
                    if isinstance(key, int):
                        key = str(key)
                if isinstance(key, int):
                    key = str(key)
                if p['kind'] == 'get':
                    o.getters[key] = JSFunction(p['value'], scope, name=key)
                elif p['kind'] == 'set':
                    unsupported('setter')
                else:
                    v = self.eval(p['value'], scope, this)
                    if isinstance(v, JSFunction) and not v.name:
                        v.name = key
                    o.props[key] = v
            return o
        if t in ('FunctionExpression', 'ArrowFunctionExpression'):
            return JSFunction(n, scope, this=this, arrow=(t == 'ArrowFunctionExpression'), name=(n.get('id') or {}).get('name', '') if n.get('id') else '')
        if t == 'SequenceExpression':
            v = UNDEF
            for e in n['expressions']:
                v = self.eval(e, scope, this)
            return v
        unsupported('expression %s (line %s)' % (t, n.get('loc')))

    def lazy_string(self, node, scope, this):
        """template-literal pieces are only ever used in error messages here: evaluated now, rendered on demand, so that a
        symbolic number inside an error text does not have to be printed"""
        v = self.eval(node, scope, this)
        if isinstance(v, (SymFloat,)) or hasattr(v, '_js_number'):
            return LazyText(['<number>'])
        return to_string(v)

    def eval_args(self, nodes, scope, this):
        out = []
        for a in nodes:
            if a['type'] == 'SpreadElement':
                v = self.eval(a['argument'], scope, this)
                out.extend(v.items if isinstance(v, JSArray) else list(v))
            else:
                out.append(self.eval(a, scope, this))
        return out

    def assign_target(self, target, v, scope, this):
        t = target['type']
        if t == 'Identifier':
            self.assign_name(target['name'], v, scope)
        elif t == 'MemberExpression':
            o = self.eval(target['object'], scope, this)
            k = prop_key(self.eval(target['property'], scope, this) if target['computed'] else target['property']['name'])
            self.set_member(o, k, v)
        else:
            self.bind_pattern(target, v, scope, False)

    def set_member(self, o, k, v):
        if o is UNDEF or o is None:
            throw_type_error('Cannot set properties of %s' % ('undefined' if o is UNDEF else 'null'))
        if isinstance(o, JSArray):
            if isinstance(k, str) and re.fullmatch(r'0|[1-9][0-9]*', k):
                k = int(k)
            if isinstance(k, int):
                while len(o.items) <= k:
                    o.items.append(HOLE)
                o.items[k] = v
                return
            if k == 'length':
                del o.items[int(v):]
                return
        if isinstance(o, JSRegExp) and k == 'lastIndex':
            o.last_index = v
            return
        if isinstance(o, JSObject):
            o.props[str(k) if isinstance(k, int) else k] = v
            return
        # primitives: silently ignored

    # ---- binary operators
    def binary(self, op, a, b):
        if op == '+':
            if isinstance(a, JSObject):
                a = to_string(a)
            if isinstance(b, JSObject):
                b = to_string(b)
            if isinstance(a, LazyText) or isinstance(b, LazyText):
                return LazyText([a, b])
            if is_str(a) or is_str(b):
                return join_strs([to_string(a), to_string(b)], '')
            return self.arith(op, to_number(a), to_number(b))
        if op in ('-', '*', '/', '%', '**'):
            return self.arith(op, to_number(a), to_number(b))
        if op in ('<', '>', '<=', '>='):
            if isinstance(a, JSObject):
                a = to_string(a)
            if isinstance(b, JSObject):
                b = to_string(b)
            if is_str(a) and is_str(b):
                if op == '<':
                    return a < b
                if op == '>':
                    return a > b
                if op == '<=':
                    return a <= b
                return a >= b
            a, b = to_number(a), to_number(b)
            if is_nan(a) or is_nan(b):
                return False
            if op == '<':
                return a < b
            if op == '>':
                return a > b
            if op == '<=':
                return a <= b
            return a >= b
        if op == '===':
            return strict_equals(a, b)
        if op == '!==':
            r = strict_equals(a, b)
            return (~r) if isinstance(r, SymBool) else (not r)
        if op == '==':
            return loose_equals(a, b)
        if op == '!=':
            r = loose_equals(a, b)
            return (~r) if isinstance(r, SymBool) else (not r)
        if op == 'in':
            k = prop_key(a)
            if isinstance(b, JSArray):
                return (isinstance(k, int) and 0 <= k < len(b.items) and b.items[k] is not HOLE) or k in b.props
            if isinstance(b, JSObject):
                return (str(k) if isinstance(k, int) else k) in b.props or k in b.getters
            throw_type_error("Cannot use 'in' operator")
        if op == 'instanceof':
            if isinstance(b, Native) and b.name in ('Error', 'TypeError', 'RangeError'):
                return isinstance(a, JSObject) and a.cls == 'Error'
            if isinstance(b, Native) and b.name == 'Array':
                return isinstance(a, JSArray)
            unsupported('instanceof')
        if op in ('|', '&', '^', '<<', '>>', '>>>'):
            a, b = to_number(a), to_number(b)
            if not isinstance(a, (int, float)) or not isinstance(b, (int, float)):
                unsupported('bitwise operator on a symbolic number')
            ia = 0 if (a != a or abs(a) == float('inf')) else int(a)
            ib = 0 if (b != b or abs(b) == float('inf')) else int(b)

            def i32(x):
                x &= 0xffffffff
                return x - (1 << 32) if x & 0x80000000 else x
            if op == '|':
                return i32(ia | ib)
            if op == '&':
                return i32(ia & ib)
            if op == '^':
                return i32(ia ^ ib)
            if op == '<<':
                return i32(i32(ia) << (ib & 31))
            if op == '>>':
                return i32(ia) >> (ib & 31)
            return (ia & 0xffffffff) >> (ib & 31)
        unsupported('operator %s' % op)

    def arith(self, op, a, b):
        for x in (a, b):
            if hasattr(x, '_js_number'):
                return x._js_arith(op, a, b)
        conc = isinstance(a, (int, float)) and isinstance(b, (int, float))
        if conc and (is_nan(a) or is_nan(b)):
            return NAN
        if is_nan(a) or is_nan(b):
            return NAN
        if not conc:
            # exact IEEE identities (x - 0, x * 1, x / 1): no rounding step
            if op == '-' and isinstance(b, (int, float)) and b == 0:
                return a
            if op == '*' and isinstance(b, (int, float)) and b == 1:
                return a
            if op == '*' and isinstance(a, (int, float)) and a == 1:
                return b
            if op == '/' and isinstance(b, (int, float)) and b == 1:
                return a
        if op == '+':
            return a + b
        if op == '-':
            return a - b
        if op == '*':
            return a * b
        if op == '/':
            if isinstance(a, SymInt) and isinstance(b, int) and b > 0 and not a.bv:
                if E.cur().float_mode == 'R':
                    return IntQuotient(a, b)
                return a / b
            if conc:
                if b == 0:
                    if a == 0:
                        return NAN
                    neg = (a < 0) != (math.copysign(1, b) < 0)
                    return float('-inf') if neg else float('inf')
                r = a / b
                if isinstance(a, int) and isinstance(b, int) and a % b == 0:
                    return a // b
                return r
            if isinstance(b, (SymInt, SymFloat)):
                if bool(b == 0):
                    unsupported('division by a symbolic zero (Infinity / NaN)')
            elif b == 0:
                unsupported('division of a symbolic number by zero')
            return a / b
        if op == '%':
            if conc:
                if b == 0 or abs(a) == float('inf'):
                    return NAN
                return math.fmod(a, b) if (isinstance(a, float) or isinstance(b, float)) else int(math.fmod(a, b))
            if isinstance(a, (SymInt, int)) and isinstance(b, (SymInt, int)):
                if bool(a >= 0) and bool(b > 0):
                    return a % b
            unsupported('remainder on symbolic numbers outside the non-negative integers')
        if op == '**':
            return a ** b
        unsupported('arithmetic %s' % op)

    # ---- members
    def get_member(self, o, k):
        if o is UNDEF or o is None:
            throw_type_error("Cannot read properties of %s (reading '%s')" % ('undefined' if o is UNDEF else 'null', k if isinstance(k, (str, int)) else '?'))
        k = prop_key(k)
        if isinstance(o, (str, SymStr)):
            return self.string_member(o, k)
        if isinstance(o, JSArray):
            if isinstance(k, str) and re.fullmatch(r'0|[1-9][0-9]*', k):
                k = int(k)
            if isinstance(k, int):
                if 0 <= k < len(o.items):
                    v = o.items[k]
                    return UNDEF if v is HOLE else v
                return UNDEF
            if k == 'length':
                return len(o.items)
            if k in o.props:
                return o.props[k]
            return self.array_method(o, k)
        if isinstance(o, JSRegExp):
            if k == 'lastIndex':
                return o.last_index
            if k == 'source':
                return o.source
            if k == 'flags':
                return o.flags
            if k == 'global':
                return 'g' in o.flags
            if k == 'exec':
                return Native(lambda this, a: self.regex_exec(o, a[0] if a else 'undefined'), 'exec')
            if k == 'test':
                return Native(lambda this, a: self.regex_exec(o, a[0] if a else 'undefined') is not None, 'test')
            return o.props.get(k, UNDEF)
        if isinstance(o, (JSFunction, Native)):
            if k == 'apply':
                return Native(lambda this, a: self.call(o, a[0] if a else UNDEF, (a[1].items if len(a) > 1 and isinstance(a[1], JSArray) else [])), 'apply')
            if k == 'call':
                return Native(lambda this, a: self.call(o, a[0] if a else UNDEF, a[1:]), 'call')
            if k == 'bind':
                return Native(lambda this, a: Native(lambda t2, b: self.call(o, a[0] if a else UNDEF, list(a[1:]) + list(b))), 'bind')
            if k == 'name':
                return o.name
            if k == 'length' and isinstance(o, JSFunction):
                return len(o.node['params'])
            return o.get(k, self)
        if isinstance(o, JSObject):
            ks = str(k) if isinstance(k, int) else k
            if ks in o.props:
                return o.props[ks]
            if ks in o.getters:
                return o.getters[ks].call(o, [], self)
            proto = getattr(o, 'proto', None)
            if proto is not None:
                v = self.get_member(proto, ks)
                if v is not UNDEF:
                    return v
            if ks == 'hasOwnProperty':
                return Native(lambda this, a: (str(prop_key(a[0])) if isinstance(prop_key(a[0]), int) else prop_key(a[0])) in o.props or prop_key(a[0]) in o.getters, 'hasOwnProperty')
            if ks == 'toString':
                return Native(lambda this, a: to_string(o), 'toString')
            return UNDEF
        if isinstance(o, (bool, SymBool)):
            if k == 'toString':
                return Native(lambda this, a: to_string(o))
            return UNDEF
        if is_num(o):
            if k == 'toFixed':
                return Native(lambda this, a: js_to_fixed(o, prop_key(to_number(a[0])) if a and a[0] is not UNDEF else 0), 'toFixed')
            if k == 'toString':
                return Native(lambda this, a: to_string(o) if (not a or a[0] is UNDEF or a[0] == 10) else unsupported('toString(radix)'), 'toString')
            if k in ('toPrecision', 'toExponential', 'toLocaleString'):
                unsupported('Number.prototype.%s' % k)
            return UNDEF
        unsupported('member %r of %s' % (k, type(o).__name__))

    def regex_exec(self, rx, s):
        s = concrete_str(to_string(s), 'RegExp.exec')
        sticky_or_global = 'g' in rx.flags or 'y' in rx.flags
        start = rx.last_index if sticky_or_global else 0
        if start > len(s):
            rx.last_index = 0
            return None
        m = rx.py.match(s, start) if 'y' in rx.flags else rx.py.search(s, start)
        if not m:
            if sticky_or_global:
                rx.last_index = 0
            return None
        if sticky_or_global:
            rx.last_index = m.end()
        return match_to_array(m, s)

    def _as_regex(self, p):
        if isinstance(p, JSRegExp):
            return p
        if p is UNDEF:
            return JSRegExp('(?:)', '')
        return JSRegExp(re.escape(concrete_str(to_string(p), 'match pattern')), '')

    def string_member(self, s, k):
        I = self
        if k == 'length':
            return len(s)
        if isinstance(k, int):
            return s[k] if 0 <= k < len(s) else UNDEF
        if isinstance(k, str) and re.fullmatch(r'0|[1-9][0-9]*', k):
            k = int(k)
            return s[k] if 0 <= k < len(s) else UNDEF

        def idx(a, i, default):
            if len(a) <= i or a[i] is UNDEF:
                return default
            v = to_number(a[i])
            if is_nan(v):
                return 0
            v = prop_key(v) if not isinstance(v, (int, float)) else v
            if isinstance(v, float):
                if v in (float('inf'), float('-inf')):
                    return len(s) if v > 0 else -len(s) - 1
                v = int(v)
            return v

        def m_indexOf(this, a):
            sub = to_string(a[0] if a else UNDEF)
            start = max(0, min(idx(a, 1, 0), len(s)))
            return s.find(sub, start)

        def m_lastIndexOf(this, a):
            sub = to_string(a[0] if a else UNDEF)
            return s.rfind(sub)

        def m_slice(this, a):
            return s[slice(idx(a, 0, 0), idx(a, 1, None))]

        def m_substr(this, a):
            n = len(s)
            st = idx(a, 0, 0)
            if st < 0:
                st = max(n + st, 0)
            ln = idx(a, 1, n - st)
            if ln <= 0:
                return ''
            return s[st:st + ln]

        def m_substring(this, a):
            n = len(s)
            x = max(0, min(idx(a, 0, 0), n))
            y = max(0, min(idx(a, 1, n), n))
            if x > y:
                x, y = y, x
            return s[x:y]

        def m_split(this, a):
            sep = a[0] if a else UNDEF
            limit = idx(a, 1, None)
            if sep is UNDEF:
                out = [s]
            elif isinstance(sep, JSRegExp):
                lit = regex_literal_text(sep)
                if lit is not None and lit != '':
                    out = s.split(lit)
                else:
                    cs = concrete_str(s, 'split by a regular expression')
                    out = []
                    pos = 0
                    p = 0
                    while p < len(cs):
                        m = sep.py.match(cs, p)
                        if m and m.end() > p or (m and m.end() == p and False):
                            out.append(cs[pos:p])
                            out.extend((UNDEF if g is None else g) for g in m.groups())
                            pos = p = m.end()
                        else:
                            p += 1
                    out.append(cs[pos:])
                    if cs == '':
                        out = [] if sep.py.match('') else ['']
            else:
                sep = to_string(sep)
                if len(sep) == 0:
                    out = [c for c in s]
                else:
                    out = s.split(sep)
            if limit is not None:
                out = out[:max(0, limit)] if limit >= 0 else out
            return JSArray(out)

        def m_replace(this, a):
            pat = a[0] if a else UNDEF
            repl = a[1] if len(a) > 1 else UNDEF
            if isinstance(repl, (JSFunction, Native)):
                cs = concrete_str(s, 'replace with a function')
                rx = self._as_regex(pat)

                def fn(m):
                    return concrete_str(to_string(self.call(repl, UNDEF, [m.group(0)] + [(UNDEF if g is None else g) for g in m.groups()] + [m.start(), cs])), 'replacement')
                return rx.py.sub(fn, cs, count=0 if 'g' in rx.flags else 1)
            repl = to_string(repl)
            if not isinstance(pat, JSRegExp):
                pat = to_string(pat)
                if isinstance(repl, str) and '$' in repl:
                    unsupported('$ patterns in a replacement text')
                return s.replace(pat, repl, 1)
            if isinstance(s, SymStr) and not s.is_concrete():
                pred = single_char_pred(pat)
                if pred is None:
                    unsupported('regular-expression replace on a symbolic string: /%s/' % pat.source)
                if isinstance(repl, str) and '$' in repl:
                    unsupported('$ patterns in a replacement text')
                out = []
                done = False
                for c in s.cells:
                    if not (done and 'g' not in pat.flags) and cell_test(c, pred):
                        out.extend(SymStr.lift(repl).cells)
                        done = True
                    else:
                        out.append(c)
                return _mk(out)
            cs = concrete_str(s, 'replace')
            rp = concrete_str(repl, 'replacement')
            py_repl = re.sub(r'\\', r'\\\\', rp)
            py_repl = re.sub(r'\$(\d{1,2})', r'\\g<\1>', py_repl)
            py_repl = py_repl.replace('$&', '\\g<0>').replace('$$', '$')
            return pat.py.sub(py_repl, cs, count=0 if 'g' in pat.flags else 1)

        def m_match(this, a):
            rx = self._as_regex(a[0] if a else UNDEF)
            if isinstance(s, SymStr) and not s.is_concrete():
                pred = single_char_pred(rx)
                if pred is None or 'g' not in rx.flags:
                    unsupported('regular-expression match on a symbolic string: /%s/%s' % (rx.source, rx.flags))
                out = [(c if isinstance(c, str) else SymStr([c])) for c in s.cells if cell_test(c, pred)]
                return JSArray(out) if out else None
            cs = concrete_str(s, 'match')
            if 'g' in rx.flags:
                out = [m.group(0) for m in rx.py.finditer(cs)]
                return JSArray(out) if out else None
            m = rx.py.search(cs)
            return match_to_array(m, cs) if m else None

        def m_trim(this, a):
            return s.strip(JS_WS)

        table = {
            'indexOf': m_indexOf, 'lastIndexOf': m_lastIndexOf, 'slice': m_slice, 'substr': m_substr, 'substring': m_substring,
            'split': m_split, 'replace': m_replace, 'match': m_match, 'trim': m_trim,
            'trimStart': lambda this, a: s.lstrip(JS_WS), 'trimEnd': lambda this, a: s.rstrip(JS_WS),
            'toUpperCase': lambda this, a: s.upper(), 'toLowerCase': lambda this, a: s.lower(),
            'startsWith': lambda this, a: s.startswith(to_string(a[0]), idx(a, 1, 0)) if isinstance(s, SymStr) else s.startswith(concrete_or_sym(to_string(a[0])), idx(a, 1, 0)),
            'endsWith': lambda this, a: s.endswith(to_string(a[0])) if not (isinstance(s, str) and isinstance(to_string(a[0]), SymStr)) else SymStr.lift(s).endswith(to_string(a[0])),
            'includes': lambda this, a: to_string(a[0]) in SymStr.lift(s) if isinstance(to_string(a[0]), SymStr) else to_string(a[0]) in s,
            'charAt': lambda this, a: (s[idx(a, 0, 0)] if 0 <= idx(a, 0, 0) < len(s) else ''),
            'charCodeAt': lambda this, a: (ord(concrete_str(s[idx(a, 0, 0)], 'charCodeAt')) if 0 <= idx(a, 0, 0) < len(s) else NAN),
            'concat': lambda this, a: join_strs([s] + [to_string(x) for x in a], ''),
            'repeat': lambda this, a: s * idx(a, 0, 0),
            'toString': lambda this, a: s, 'valueOf': lambda this, a: s,
            'padStart': lambda this, a: (join_strs([(to_string(a[1]) if len(a) > 1 and a[1] is not UNDEF else ' ') * max(0, idx(a, 0, 0) - len(s)), s], '')
                                       if len(to_string(a[1]) if len(a) > 1 and a[1] is not UNDEF else ' ') == 1 else unsupported('padStart with a multi-character filler')),
        }
        if k in table:
            return Native(table[k], k)
        if k in ('localeCompare', 'normalize', 'matchAll', 'replaceAll', 'search', 'padEnd', 'codePointAt', 'at'):
            unsupported('String.prototype.%s' % k)
        return UNDEF

    def array_method(self, arr, k):
        I = self
        items = arr.items

        def val(x):
            return UNDEF if x is HOLE else x

        def m_indexOf(this, a):
            for i, x in enumerate(items):
                if x is HOLE:
                    continue
                if truthy(strict_equals(x, a[0] if a else UNDEF)):
                    return i
            return -1

        def m_join(this, a):
            sep = ',' if (not a or a[0] is UNDEF) else to_string(a[0])
            parts = [('' if (x is UNDEF or x is None or x is HOLE) else to_string(x)) for x in items]
            if isinstance(sep, SymStr):
                unsupported('join with a symbolic separator')
            return join_strs(parts, sep)

        def m_map(this, a):
            return JSArray([(HOLE if x is HOLE else self.call(a[0], a[1] if len(a) > 1 else UNDEF, [x, i, arr])) for i, x in enumerate(list(items))])

        def m_filter(this, a):
            return JSArray([x for i, x in enumerate(list(items)) if x is not HOLE and truthy(self.call(a[0], UNDEF, [x, i, arr]))])

        def m_forEach(this, a):
            for i, x in enumerate(list(items)):
                if x is not HOLE:
                    self.call(a[0], UNDEF, [x, i, arr])
            return UNDEF

        def m_reduce(this, a):
            seq = [(i, x) for i, x in enumerate(items) if x is not HOLE]
            if len(a) > 1:
                acc = a[1]
            else:
                if not seq:
                    throw_type_error('Reduce of empty array with no initial value')
                acc = seq[0][1]
                seq = seq[1:]
            for i, x in seq:
                acc = self.call(a[0], UNDEF, [acc, x, i, arr])
            return acc

        def m_slice(this, a):
            def ix(i, d):
                if len(a) <= i or a[i] is UNDEF:
                    return d
                return int(prop_key(to_number(a[i])))
            return JSArray(items[slice(ix(0, 0), ix(1, None))])

        def m_push(this, a):
            items.extend(a)
            return len(items)

        def m_reverse(this, a):
            items.reverse()
            return arr

        def m_sort(this, a):
            import functools
            if a and a[0] is not UNDEF:
                def cmp(x, y):
                    r = to_number(self.call(a[0], UNDEF, [x, y]))
                    return -1 if bool(r < 0) else (1 if bool(r > 0) else 0)
            else:
                def cmp(x, y):
                    sx, sy = concrete_str(to_string(x), 'sort'), concrete_str(to_string(y), 'sort')
                    ux, uy = sx.encode('utf-16-be'), sy.encode('utf-16-be')
                    return -1 if ux < uy else (1 if ux > uy else 0)
            defined = [x for x in items if x is not HOLE and x is not UNDEF]
            rest = [x for x in items if x is HOLE or x is UNDEF]
            defined.sort(key=functools.cmp_to_key(cmp))
            items[:] = defined + rest
            return arr

        table = {
            'indexOf': m_indexOf, 'includes': lambda this, a: m_indexOf(this, a) >= 0, 'join': m_join, 'map': m_map, 'filter': m_filter,
            'forEach': m_forEach, 'reduce': m_reduce, 'slice': m_slice, 'push': m_push, 'reverse': m_reverse, 'sort': m_sort,
            'pop': lambda this, a: val(items.pop()) if items else UNDEF,
            'shift': lambda this, a: val(items.pop(0)) if items else UNDEF,
            'unshift': lambda this, a: (items.__setitem__(slice(0, 0), a), len(items))[1],
            'concat': lambda this, a: JSArray(items + [y for x in a for y in (x.items if isinstance(x, JSArray) else [x])]),
            'some': lambda this, a: any(truthy(self.call(a[0], UNDEF, [x, i, arr])) for i, x in enumerate(list(items)) if x is not HOLE),
            'every': lambda this, a: all(truthy(self.call(a[0], UNDEF, [x, i, arr])) for i, x in enumerate(list(items)) if x is not HOLE),
            'find': lambda this, a: next((x for i, x in enumerate(list(items)) if truthy(self.call(a[0], UNDEF, [val(x), i, arr]))), UNDEF),
            'findIndex': lambda this, a: next((i for i, x in enumerate(list(items)) if truthy(self.call(a[0], UNDEF, [val(x), i, arr]))), -1),
            'toString': lambda this, a: to_string(arr),
            'keys': lambda this, a: JSArray(list(range(len(items)))),
        }
        if k in table:
            return Native(table[k], k)
        if k in ('splice', 'fill', 'flat', 'flatMap', 'lastIndexOf', 'reduceRight', 'entries', 'values'):
            unsupported('Array.prototype.%s' % k)
        return UNDEF


def concrete_or_sym(x):
    return x


class LazyText:
    """text of a template literal / concatenation that contains a symbolic number: only ever an error message"""

    def __init__(self, parts):
        self.parts = parts

    def __repr__(self):
        return '<message>'


_orig_to_string = to_string


def to_string(v):  # noqa: F811  (LazyText passes through string conversion untouched)
    if isinstance(v, LazyText):
        return v
    return _orig_to_string(v)
