// Prints the ESTree of a JavaScript source file as JSON (node's bundled acorn: run with  node --expose-internals estree.js FILE).
'use strict';
const acorn = require('internal/deps/acorn/acorn/dist/acorn');
const fs = require('fs');
const src = fs.readFileSync(process.argv[2], 'utf8');
const ast = acorn.parse(src, { ecmaVersion: 2022, sourceType: 'module', locations: true });
process.stdout.write(JSON.stringify(ast, (k, v) => {
  if (k === 'start' || k === 'end') return undefined;
  if (k === 'loc') return v && v.start ? v.start.line : undefined;
  if (typeof v === 'bigint') return String(v);
  if (v instanceof RegExp) return undefined;
  return v;
}));
