// Loads the repository's js/src modules directly under node (no Babel): the ES import statements are rewritten to
// require() calls, which is what the package's Babel build does; a name the imported module does not export is undefined.
// stdin: one JSON request per line {module, func, args}; stdout: one JSON answer per line.
'use strict';
const fs = require('fs');
const path = require('path');
const Module = require('module');
const SRC = path.resolve(process.argv[2]);
const cache = {};
function load(file) {
  file = path.resolve(file);
  if (cache[file]) return cache[file].exports;
  let src = fs.readFileSync(file, 'utf8');
  src = src.replace(/import\s*\{([^}]*)\}\s*from\s*'([^']+)';?/g, (m, names, from) => {
    const ns = names.split(',').map((s) => s.trim()).filter(Boolean);
    return 'const {' + ns.join(', ') + '} = require(' + JSON.stringify(from) + ');';
  });
  const m = { exports: {} };
  cache[file] = m;
  const req = (p) => (p.startsWith('.') ? load(path.resolve(path.dirname(file), p)) : require(p));
  src += '\nmodule.__eval = function (s) { return eval(s); };\n';
  const fn = new Function('module', 'exports', 'require', src);
  fn(m, m.exports, req);
  return m.exports;
}
function enc(v) {
  if (typeof v === 'number') {
    if (Number.isNaN(v)) return { t: 'nan' };
    if (!Number.isFinite(v)) return { t: 'inf', neg: v < 0 };
    return { t: 'num', v: v, s: String(v) };
  }
  if (v === undefined) return { t: 'undefined' };
  if (v === null) return { t: 'null' };
  if (typeof v === 'string') return { t: 'str', v: v };
  if (typeof v === 'boolean') return { t: 'bool', v: v };
  if (Array.isArray(v)) return { t: 'arr', v: v.map(enc) };
  return { t: 'obj', v: String(v) };
}
const rl = require('readline').createInterface({ input: process.stdin });
rl.on('line', (line) => {
  let out;
  try {
    const rq = JSON.parse(line);
    const mod = load(path.join(SRC, rq.module));
    if (rq.eval) {
      out = { ok: true, value: { t: 'json', v: JSON.parse(JSON.stringify(cache[path.resolve(path.join(SRC, rq.module))].__eval(rq.eval))) } };
      process.stdout.write(JSON.stringify(out) + '\n');
      return;
    }
    const args = rq.args.map((a) => (a && a.t === 'undefined' ? undefined : a));
    try {
      out = { ok: true, value: enc(mod[rq.func].apply(null, args)) };
    } catch (e) {
      out = { ok: false, error: String(e && e.message ? e.message : e), name: e && e.name ? e.name : 'Error' };
    }
  } catch (e) {
    out = { harness_error: String(e && e.stack ? e.stack : e) };
  }
  process.stdout.write(JSON.stringify(out) + '\n');
});
