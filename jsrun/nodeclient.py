"""Calls the repository's JavaScript functions under the real node (one persistent process per python process).
Used by witness validation and by every replay script: what is reported is what node itself returns."""
import json
import os
import subprocess

HERE = os.path.dirname(os.path.abspath(__file__))
REPO = os.environ.get('VERIF_REPO', '/repo')
_proc = None


class JSError(Exception):
    pass


def _node():
    global _proc
    if _proc is None or _proc.poll() is not None:
        _proc = subprocess.Popen(['node', os.path.join(HERE, 'nodecall.js'), os.path.join(REPO, 'js', 'src')],
                                 stdin=subprocess.PIPE, stdout=subprocess.PIPE, text=True)
    return _proc


def _dec(v):
    t = v['t']
    if t == 'nan':
        return float('nan')
    if t == 'inf':
        return float('-inf') if v['neg'] else float('inf')
    if t == 'undefined':
        return 'undefined'
    if t == 'null':
        return None
    if t == 'arr':
        return [_dec(x) for x in v['v']]
    return v['v']


def _request(rq):
    p = _node()
    p.stdin.write(json.dumps(rq) + '\n')
    p.stdin.flush()
    line = p.stdout.readline()
    if not line:
        raise RuntimeError('node ended unexpectedly')
    o = json.loads(line)
    if 'harness_error' in o:
        raise RuntimeError('node harness error: ' + o['harness_error'])
    if not o['ok']:
        raise JSError(o.get('error', ''))
    return _dec(o['value'])


def JS(module, func, *args):
    return _request({'module': module, 'func': func, 'args': list(args)})


def JSEVAL(module, expr):
    return _request({'module': module, 'eval': expr})


def outcome(fn):
    """('value', v) or ('refuses', how): an exception, or NaN (JavaScript's arithmetic way of refusing)"""
    try:
        v = fn()
    except JSError as e:
        return ('refuses', 'throws: %s' % str(e)[:80])
    except Exception as e:
        return ('refuses', '%s: %s' % (type(e).__name__, str(e)[:80]))
    if isinstance(v, float) and v != v:
        return ('refuses', 'NaN')
    return ('value', v)


def same(a, b):
    if a[0] != b[0]:
        return False
    if a[0] == 'refuses':
        return True
    x, y = a[1], b[1]
    if isinstance(x, bool) or isinstance(y, bool):
        return isinstance(x, bool) and isinstance(y, bool) and x == y
    if isinstance(x, (int, float)) and isinstance(y, (int, float)):
        return x == y
    return type(x) == type(y) and x == y
