#!/bin/bash
# Build the overlay virtualenv used by every check (offline: wheelhouse only).
set -e
cd "$(dirname "$0")"
exec 9>/tmp/.verif-venv.lock
flock 9
if [ -x .venv/bin/python ] && .venv/bin/python -c "import z3, cvc5, crosshair" 2>/dev/null; then
  exit 0
fi
rm -rf .venv
/venv/bin/python -m venv .venv
echo "import site; site.addsitedir('/venv/lib/python3.12/site-packages')" > .venv/lib/python3.12/site-packages/_base.pth
PIP_NO_INDEX=1 .venv/bin/pip install -q --no-index --find-links /opt/veriftools/wheels z3-solver cvc5 crosshair-tool >/dev/null 2>&1 || \
PIP_NO_INDEX=1 .venv/bin/pip install -q --no-index --find-links /opt/veriftools/wheels z3-solver cvc5
.venv/bin/python -c "import z3, cvc5"
