"""Import hook: loads /repo/athlib/**/*.py from the current working tree, applies a
small semantics-preserving AST pass and executes the code in module namespaces
pre-seeded with shadow builtins.  Nothing under /repo is modified.
"""
import ast
import builtins
import importlib.abc
import importlib.machinery
import importlib.util
import os
import sys

from . import shadow

REPO = os.environ.get('VERIF_REPO', '/repo')

# module -> shim module (configurable per harness before the first athlib import)
DEFAULT_SHIMS = {
    're': 'symrun.shims.re_shim',
    'decimal': 'symrun.shims.decimal_shim',
    'functools': 'symrun.shims.functools_shim',
}

_METHS = shadow._STR_METHODS


class Transformer(ast.NodeTransformer):
    def __init__(self, shims):
        self.shims = shims

    # a[i]  (load, non-slice)  ->  __sx_getitem__(a, i)
    def visit_Subscript(self, node):
        self.generic_visit(node)
        if isinstance(node.ctx, ast.Load) and not isinstance(node.slice, ast.Slice) and not (
                isinstance(node.slice, ast.Tuple) and any(isinstance(e, ast.Slice) for e in node.slice.elts)):
            return ast.copy_location(ast.Call(func=ast.Name(id='__sx_getitem__', ctx=ast.Load()),
                                              args=[node.value, node.slice], keywords=[]), node)
        return node

    # d[k] = v  (single target, plain subscript)  ->  __sx_setitem__(v, d, k)   (evaluation order value, object, key as in python)
    @staticmethod
    def _plain_subscript(t):
        return isinstance(t, ast.Subscript) and not isinstance(t.slice, ast.Slice) and not (
            isinstance(t.slice, ast.Tuple) and any(isinstance(e, ast.Slice) for e in t.slice.elts))

    def visit_Assign(self, node):
        self.generic_visit(node)
        if len(node.targets) == 1 and self._plain_subscript(node.targets[0]):
            t = node.targets[0]
            call = ast.Call(func=ast.Name(id='__sx_setitem__', ctx=ast.Load()), args=[node.value, t.value, t.slice], keywords=[])
            return ast.copy_location(ast.Expr(value=call), node)
        if len(node.targets) > 1 and any(self._plain_subscript(t) for t in node.targets):
            # a = d[k] = value : the value once, then the targets from left to right (python's order)
            self._tmp = getattr(self, '_tmp', 0) + 1
            tmp = '__sx_tmp%d' % self._tmp
            out = [ast.Assign(targets=[ast.Name(id=tmp, ctx=ast.Store())], value=node.value)]
            for t in node.targets:
                if self._plain_subscript(t):
                    out.append(ast.Expr(value=ast.Call(func=ast.Name(id='__sx_setitem__', ctx=ast.Load()),
                                                       args=[ast.Name(id=tmp, ctx=ast.Load()), t.value, t.slice], keywords=[])))
                else:
                    out.append(ast.Assign(targets=[t], value=ast.Name(id=tmp, ctx=ast.Load())))
            return [ast.copy_location(x, node) for x in out]
        return node

    # x in c / x not in c  ->  __sx_contains__(c, x)
    def visit_Compare(self, node):
        self.generic_visit(node)
        if len(node.ops) == 1 and isinstance(node.ops[0], (ast.In, ast.NotIn)):
            call = ast.Call(func=ast.Name(id='__sx_contains__', ctx=ast.Load()),
                            args=[node.comparators[0], node.left], keywords=[])
            if isinstance(node.ops[0], ast.NotIn):
                call = ast.UnaryOp(op=ast.Not(), operand=call)
            return ast.copy_location(call, node)
        return node

    # l % r -> __sx_mod__(l, r)
    def visit_BinOp(self, node):
        self.generic_visit(node)
        if isinstance(node.op, ast.Mod):
            return ast.copy_location(ast.Call(func=ast.Name(id='__sx_mod__', ctx=ast.Load()),
                                              args=[node.left, node.right], keywords=[]), node)
        return node

    # obj.meth(args) for selected method names -> __sx_method__(obj, 'meth', args)
    def visit_Call(self, node):
        self.generic_visit(node)
        f = node.func
        if isinstance(f, ast.Attribute) and f.attr in _METHS and not any(isinstance(a, ast.Starred) for a in node.args) \
                and not any(k.arg is None for k in node.keywords):
            if isinstance(f.value, ast.Call) and isinstance(f.value.func, ast.Name) and f.value.func.id == 'super':
                return node
            return ast.copy_location(ast.Call(func=ast.Name(id='__sx_method__', ctx=ast.Load()),
                                              args=[f.value, ast.Constant(value=f.attr)] + node.args,
                                              keywords=node.keywords), node)
        return node

    def visit_Import(self, node):
        out = []
        for al in node.names:
            if al.name in self.shims:
                out.append(ast.copy_location(ast.ImportFrom(
                    module=self.shims[al.name].rsplit('.', 1)[0],
                    names=[ast.alias(name=self.shims[al.name].rsplit('.', 1)[1], asname=al.asname or al.name)],
                    level=0), node))
            else:
                out.append(ast.copy_location(ast.Import(names=[al]), node))
        return out

    def visit_ImportFrom(self, node):
        if node.level == 0 and node.module in self.shims:
            node.module = self.shims[node.module]
        return node


class Loader(importlib.abc.Loader):
    def __init__(self, path, shims, is_pkg):
        self.path = path
        self.shims = shims
        self.is_pkg = is_pkg

    def create_module(self, spec):
        return None

    def exec_module(self, module):
        with open(self.path, encoding='utf8') as f:
            src = f.read()
        tree = ast.parse(src, self.path)
        tree = Transformer(self.shims).visit(tree)
        ast.fix_missing_locations(tree)
        code = compile(tree, self.path, 'exec', dont_inherit=True)
        # shadows live in the module's private builtins dict, so athlib's own globals() stay untouched
        b = dict(builtins.__dict__)
        b.update(shadow.NAMESPACE)
        b.update(EXTRA_NAMESPACE)
        module.__dict__['__builtins__'] = b
        module.__file__ = self.path
        exec(code, module.__dict__)


EXTRA_NAMESPACE = {}
LOADED = []


class Finder(importlib.abc.MetaPathFinder):
    def __init__(self, shims):
        self.shims = shims

    def find_spec(self, name, path, target=None):
        if name != 'athlib' and not name.startswith('athlib.'):
            return None
        rel = name.split('.')
        base = os.path.join(REPO, *rel)
        if os.path.isdir(base) and os.path.exists(os.path.join(base, '__init__.py')):
            fn = os.path.join(base, '__init__.py')
            spec = importlib.machinery.ModuleSpec(name, Loader(fn, self.shims, True), origin=fn, is_package=True)
            spec.submodule_search_locations = [base]
        elif os.path.exists(base + '.py'):
            fn = base + '.py'
            spec = importlib.machinery.ModuleSpec(name, Loader(fn, self.shims, False), origin=fn)
        else:
            return None
        spec.has_location = True
        LOADED.append(os.path.relpath(fn, REPO))
        return spec


_installed = None


def install(shims=None, extra_namespace=None):
    """Must run before anything imports athlib in this process."""
    global _installed
    if _installed is not None:
        return _installed
    for k in list(sys.modules):
        if k == 'athlib' or k.startswith('athlib.'):
            raise RuntimeError('athlib already imported before symrun.hook.install()')
    sh = dict(DEFAULT_SHIMS)
    if shims:
        sh.update(shims)
    if extra_namespace:
        EXTRA_NAMESPACE.update(extra_namespace)
    _installed = Finder(sh)
    sys.meta_path.insert(0, _installed)
    return _installed
