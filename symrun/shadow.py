"""Shadow builtins and AST-level helpers injected into athlib's module namespaces.

Semantics-preserving for concrete values: every helper falls through to the
ordinary operation when no proxy is involved (checked by running the repo's own
test-suite under the hook, tools/suite_under_hook.py).
"""
import builtins
import re as _re

import z3

from . import engine as E
from .values import SymBool, SymInt, SymFloat, mkbool, is_sym, realval, fpval
from .strings import SymStr, Opaque, Cell, symcell, cell_test, parse_int, parse_float_parts, join_on
from . import floatmodel


def _has_sym(args):
    for a in args:
        if is_sym(a):
            return True
        if isinstance(a, (tuple, list)) and _has_sym(a):
            return True
    return False


# ------------------------------------------------------------------ conversions
def conv_int(x=0, *rest):
    if isinstance(x, SymInt):
        return x
    if isinstance(x, SymFloat):
        return x.__trunc__()
    if isinstance(x, SymBool):
        bv = E.cur().int_bv
        return SymInt(z3.If(x.term, z3.BitVecVal(1, 64), z3.BitVecVal(0, 64)) if bv else z3.If(x.term, 1, 0))
    if isinstance(x, SymStr):
        if rest:
            raise E.Unsupported('int(symbolic, base)')
        return parse_int(x, bv=E.cur().int_bv)
    if isinstance(x, Opaque):
        x._no()
    if hasattr(x, '_sx_int'):
        return x._sx_int()
    return builtins.int(x, *rest)


def float_from_parts(sign, total, nfrac):
    """correctly rounded double of  sign * total / 10**nfrac  (what float(text) returns)"""
    eng = E.cur()
    if z3.is_int_value(total):
        return builtins.float('%s%d' % ('-' if sign < 0 else '', total.as_long())) / 1 if nfrac == 0 else \
            builtins.float('%s%de-%d' % ('-' if sign < 0 else '', total.as_long(), nfrac))
    if eng.float_mode == 'F':
        if nfrac > 22:
            raise E.Unsupported('more than 22 fraction digits')
        # exact: total < 2**53 is asserted by the harness ranges; 10**nfrac is a double for nfrac <= 22
        num = z3.fpSignedToFP(z3.RNE(), z3.Int2BV(total, 64) if not z3.is_bv(total) else total, z3.Float64())
        t = z3.fpDiv(z3.RNE(), num, fpval(10.0 ** nfrac)) if nfrac else num
        if sign < 0:
            t = z3.fpNeg(t)
        return SymFloat(t)
    if nfrac == 0:
        # an integer of at most 15 digits is exactly a double (callers bound the digit count)
        return SymFloat(-z3.ToReal(total) if sign < 0 else z3.ToReal(total))
    exact = z3.ToReal(total) / (10 ** nfrac)
    if sign < 0:
        exact = -exact
    return SymFloat(floatmodel.rnd(exact))


def conv_float(x=0.0):
    if isinstance(x, SymFloat):
        return x
    if isinstance(x, SymInt):
        return SymFloat.from_int(x)
    if isinstance(x, SymStr):
        sign, total, nfrac = parse_float_parts(x)
        return float_from_parts(sign, total, nfrac)
    if isinstance(x, Opaque):
        x._no()
    if hasattr(x, '_sx_float'):
        return x._sx_float()
    return builtins.float(x)


def render_int(x, width=0, zero=False, maxdigits=12):
    """decimal rendering of a symbolic integer as a digit-cell string (forks on the number of digits)"""
    if not isinstance(x, SymInt):
        return ('%0*d' if zero else '%*d') % (width, x)
    if x.bv:
        raise E.Unsupported('rendering a bit-vector integer')
    eng = E.cur()
    neg = bool(x < 0)
    v = -x if neg else x
    n = 1
    while bool(v >= 10 ** n):
        n += 1
        if n > maxdigits:
            raise E.Unsupported('integer with more than %d digits' % maxdigits)
    cells = []
    total = z3.IntVal(0)
    for i in range(n):
        c = symcell('0123456789', 'dg')
        cells.append(c)
        total = total * 10 + ((c.var - 48) if isinstance(c, Cell) else (ord(c) - 48))
    eng.add(total == v.term)
    if n > 1 and isinstance(cells[0], Cell):
        eng.add(cells[0].var != 48)
        eng.celldom[cells[0].vid] = eng.celldom[cells[0].vid] - {48}
    body = cells
    pad = width - len(body) - (1 if neg else 0)
    if pad > 0:
        if zero:
            body = ['0'] * pad + body
            if neg:
                body = ['-'] + body
        else:
            body = [' '] * pad + (['-'] if neg else []) + body
    elif neg:
        body = ['-'] + body
    return SymStr(body)


def conv_str(x=''):
    if isinstance(x, (SymStr, Opaque)):
        return x
    if isinstance(x, SymInt):
        return render_int(x)
    if isinstance(x, SymFloat):
        from . import dtoa
        return dtoa.repr_float(x)
    if isinstance(x, SymBool):
        return 'True' if bool(x) else 'False'
    if hasattr(x, '_sx_str'):
        return x._sx_str()
    return builtins.str(x)


def sx_repr(x):
    if isinstance(x, SymStr):
        return Opaque('repr of symbolic string')
    if isinstance(x, SymFloat):
        from . import dtoa
        return dtoa.repr_float(x)
    if isinstance(x, SymInt):
        return render_int(x)
    if isinstance(x, Opaque):
        return x
    return builtins.repr(x)


class _Meta(type):
    def __instancecheck__(cls, x):
        return isinstance(x, cls._real) or isinstance(x, cls._sym)

    def __subclasscheck__(cls, c):
        return issubclass(c, cls._real) or issubclass(c, cls._sym)

    def __call__(cls, *a, **k):
        return cls._conv(*a, **k)

    def __eq__(cls, o):
        return o is cls or o is cls._real

    def __hash__(cls):
        return hash(cls._real)


class sx_int(int, metaclass=_Meta):
    _real = int
    _sym = (SymInt,)
    _conv = staticmethod(conv_int)


class sx_float(float, metaclass=_Meta):
    _real = float
    _sym = (SymFloat,)
    _conv = staticmethod(conv_float)


class sx_str(str, metaclass=_Meta):
    _real = str
    _sym = (SymStr, Opaque)
    _conv = staticmethod(conv_str)


class sx_bool(int, metaclass=_Meta):
    _real = bool
    _sym = (SymBool,)
    _conv = staticmethod(lambda x=False: x if isinstance(x, SymBool) else builtins.bool(x))


def _ite(c, a, b):
    """value-level if-then-else on numeric proxies (used by max/min to avoid forks)"""
    if isinstance(c, bool):
        return a if c else b
    # c is SymBool
    if isinstance(a, (SymFloat, float)) or isinstance(b, (SymFloat, float)):
        fa, fb = conv_float(a), conv_float(b)
        if not isinstance(fa, SymFloat):
            fa = SymFloat(fpval(fa) if fb.ieee else realval(fa))
        if not isinstance(fb, SymFloat):
            fb = SymFloat(fpval(fb) if fa.ieee else realval(fb))
        return SymFloat(z3.If(c.term, fa.term, fb.term))
    ia = a if isinstance(a, SymInt) else None
    ib = b if isinstance(b, SymInt) else None
    ref = ia if ia is not None else ib
    if ref is None or not isinstance(a, (SymInt, int)) or not isinstance(b, (SymInt, int)):
        return a if bool(c) else b
    return SymInt(z3.If(c.term, ref._coerce(a), ref._coerce(b)))


def sx_max(*args, **kw):
    if kw or len(args) == 1 or not _has_sym(args):
        return builtins.max(*args, **kw)
    r = args[0]
    for a in args[1:]:
        if not isinstance(a, (int, float, SymInt, SymFloat)) or not isinstance(r, (int, float, SymInt, SymFloat)):
            return builtins.max(*args)
        r = _ite(a > r, a, r)
    return r


def sx_min(*args, **kw):
    if kw or len(args) == 1 or not _has_sym(args):
        return builtins.min(*args, **kw)
    r = args[0]
    for a in args[1:]:
        if not isinstance(a, (int, float, SymInt, SymFloat)) or not isinstance(r, (int, float, SymInt, SymFloat)):
            return builtins.min(*args)
        r = _ite(a < r, a, r)
    return r


def sx_print(*a, **k):
    return None


def sx_len(x):
    if hasattr(x, '_sx_len'):
        return x._sx_len()
    if type(x) is dict:
        side = _side(x)
        if side:
            return builtins.len(x) + builtins.len(side)     # keys stored through sx_setitem are pairwise distinct on the path
    return builtins.len(x)


# ------------------------------------------------------------------ AST helpers
def _int_table_lookup(d, i):
    """d: dict with int keys, i: SymInt.  KeyError path if i can miss; If-chain value."""
    keys = sorted(k for k in d if isinstance(k, int) and not isinstance(k, bool))
    if len(keys) != len(d):
        # mixed keys (bulgarian tables also hold 'min'/'max'): only the int keys can equal an int
        pass
    from .strings import _ranges_term
    if not keys:
        raise KeyError(i)
    if i.bv:
        # bit-vector index (IEEE harnesses): signed comparisons against 64-bit constants
        parts = []
        a = 0
        while a < len(keys):
            b = a
            while b + 1 < len(keys) and keys[b + 1] == keys[b] + 1:
                b += 1
            parts.append(z3.And(i.term >= z3.BitVecVal(keys[a], 64), i.term <= z3.BitVecVal(keys[b], 64)))
            a = b + 1
        inside = mkbool(z3.simplify(z3.Or(parts) if len(parts) > 1 else parts[0]))
    else:
        inside = mkbool(z3.simplify(_ranges_term(i.term, keys)))
    if not bool(inside):
        raise KeyError('symbolic key outside table')
    vals = [d[k] for k in keys]
    if all(isinstance(v, int) and not isinstance(v, bool) for v in vals):
        # exact piecewise-constant encoding: maximal runs of consecutive keys with the same value, as a balanced If-tree
        eng = E.cur()
        cache = getattr(eng, '_tables', None)
        if cache is None:
            cache = eng._tables = {}
        runs = cache.get(id(d))
        if runs is None or runs[1] is not d:
            rl = []
            for k_, v_ in zip(keys, vals):
                if rl and rl[-1][2] == v_ and rl[-1][1] == k_ - 1:
                    rl[-1][1] = k_
                else:
                    rl.append([k_, k_, v_])
            runs = cache[id(d)] = (rl, d)
        rl = runs[0]

        mk = (lambda n: z3.BitVecVal(n, 64)) if i.bv else z3.IntVal

        def tree(lo, hi):
            if lo == hi:
                return mk(rl[lo][2])
            mid = (lo + hi) // 2
            return z3.If(i.term <= mk(rl[mid][1]), tree(lo, mid), tree(mid + 1, hi))
        return SymInt(tree(0, len(rl) - 1))
    return d[i.__index__()]


def _side(d):
    """entries stored on this path under a symbolic key (engine side table), newest first"""
    if E.active() and isinstance(d, dict):
        ent = E.cur().symstore.get(id(d))
        if ent is not None:
            return ent[1]
    return None


def _key_terms(a, b, parts):
    """collect z3 equalities that make the dict keys a and b equal; False if they cannot be equal, True otherwise"""
    if isinstance(a, tuple) or isinstance(b, tuple):
        if not (isinstance(a, tuple) and isinstance(b, tuple)) or builtins.len(a) != builtins.len(b):
            return False
        for x, y in zip(a, b):
            if not _key_terms(x, y, parts):
                return False
        return True
    if isinstance(a, (str, SymStr)) or isinstance(b, (str, SymStr)):
        if not (isinstance(a, (str, SymStr)) and isinstance(b, (str, SymStr))):
            return False
        ac = SymStr.lift(a).cells
        bc = SymStr.lift(b).cells
        if builtins.len(ac) != builtins.len(bc):
            return False
        for p, q in zip(ac, bc):
            ps, qs = isinstance(p, str), isinstance(q, str)
            if ps and qs:
                if p != q:
                    return False
                continue
            if not ps and not qs and p.vid == q.vid and p.fmap == q.fmap:
                continue
            if not (({p} if ps else p.chars()) & ({q} if qs else q.chars())):
                return False
            parts.append((z3.IntVal(ord(p)) if ps else p.term()) == (z3.IntVal(ord(q)) if qs else q.term()))
        return True
    if isinstance(a, (SymInt, SymFloat, SymBool)) or isinstance(b, (SymInt, SymFloat, SymBool)):
        if isinstance(a, (str, SymStr, tuple)) or isinstance(b, (str, SymStr, tuple)) or a is None or b is None:
            return False
        r = (a == b)                      # proxies build the comparison term; python's 1 == 1.0 key semantics come with it
        if isinstance(r, SymBool):
            parts.append(r.term)
            return True
        return builtins.bool(r)
    try:
        return builtins.bool(a == b)
    except Exception:
        return False


def _key_sym(k):
    if isinstance(k, tuple):
        return any(_key_sym(x) for x in k)
    if isinstance(k, SymStr):
        return not k.is_concrete()
    return isinstance(k, (SymInt, SymFloat, SymBool))


def _key_eq(a, b):
    """equality of two dict keys ((Sym)strings, symbolic numbers, tuples of them) decided by ONE fork on the conjunction of the
    component equalities (the proxies' own == forks component by component; a dict lookup only needs hit / miss)"""
    parts = []
    if not _key_terms(a, b, parts):
        return False
    if not parts:
        return True
    return E.cur().branch(z3.And(parts) if builtins.len(parts) > 1 else parts[0])


def sx_setitem(v, d, k):
    if E.active() and type(d) is dict and _key_sym(k):
        eng = E.cur()
        side = eng.symstore.setdefault(id(d), (d, []))[1]
        for j, (k2, _) in enumerate(side):
            if _key_eq(k, k2):
                side[j] = (k2, v)
                return
        for kc in list(d):
            if _key_eq(k, kc):
                d[kc] = v
                return
        side.insert(0, (k, v))
        return
    if E.active() and isinstance(d, dict):
        side = _side(d)
        if side:
            for j, (k2, _) in enumerate(side):
                if _key_eq(k2, k):
                    side[j] = (k2, v)
                    return
    if isinstance(k, SymStr) and isinstance(d, dict):
        k = k.concretize()
    d[k] = v


def sx_getitem(a, i):
    side = _side(a)
    if side:
        for k2, v2 in side:
            if _key_eq(k2, i):
                return v2
    if isinstance(i, SymInt):
        if isinstance(a, dict):
            return _int_table_lookup(a, i)
        if isinstance(a, str):
            return a[i.__index__()]
    elif isinstance(i, SymStr):
        if isinstance(a, dict):
            for k in a:
                if isinstance(k, (str, SymStr)) and i == k:
                    return a[k]
            raise KeyError('symbolic key')
        raise TypeError('indices must be integers or slices, not str')
    elif isinstance(i, SymFloat):
        raise TypeError('indices must be integers or slices, not float') if not isinstance(a, dict) else KeyError('float key')
    elif isinstance(i, tuple) and isinstance(a, dict) and _key_sym(i):
        for k in a:
            if isinstance(k, tuple) and _key_eq(i, k):
                return a[k]
        raise KeyError('symbolic tuple key')
    return a[i]


def sx_contains(c, x):
    side = _side(c)
    if side:
        for k2, _ in side:
            if _key_eq(k2, x):
                return True
    if isinstance(c, str) and isinstance(x, SymStr):
        return x in SymStr.lift(c)          # SymStr.__contains__ on the lifted container
    if isinstance(c, str) and isinstance(x, Opaque):
        x._no()
    if isinstance(x, tuple) and isinstance(c, (dict, set, frozenset)) and _key_sym(x):
        for k in c:
            if isinstance(k, tuple) and _key_eq(x, k):
                return True
        return False
    if is_sym(x) and isinstance(c, (dict, set, frozenset)):
        for k in c:
            if isinstance(x, SymStr) and not isinstance(k, (str, SymStr)):
                continue
            if isinstance(x, (SymInt, SymFloat)) and not isinstance(k, (int, float)):
                continue
            if x == k:
                return True
        return False
    return x in c


_FMT = _re.compile(r'%(?:\((\w+)\))?([-0 +#]*)(\*|\d+)?(?:\.(\*|\d+))?([sdrfiuxg%])')


def sx_mod(l, r):
    if isinstance(l, str) and not isinstance(l, SymStr):
        args = r if isinstance(r, tuple) else (r,)
        if isinstance(r, dict) or not _has_sym(args):
            return l % r
        return _format(l, args)
    return l % r


def _format(fmt, args):
    out = []
    pos = 0
    ai = 0
    opaque = None
    for m in _FMT.finditer(fmt):
        out.extend(fmt[pos:m.start()])
        pos = m.end()
        key, flags, width, prec, conv = m.groups()
        if conv == '%':
            out.append('%')
            continue
        if key:
            raise E.Unsupported('format spec %r' % m.group())
        stars = []
        for part in (width, prec):
            if part == '*':
                if ai >= len(args):
                    raise TypeError('not enough arguments for format string')
                v = args[ai]
                ai += 1
                stars.append(v.__index__() if isinstance(v, SymInt) else v)
        if width == '*':
            width = str(stars.pop(0))
        if prec == '*':
            prec = str(stars.pop(0))
        if ai >= len(args):
            raise TypeError('not enough arguments for format string')
        a = args[ai]
        ai += 1
        w = int(width) if width else 0
        if not is_sym(a):
            spec = '%' + flags + (width or '') + ('.' + prec if prec is not None else '') + conv
            out.extend(spec % (a,))
            continue
        if isinstance(a, Opaque):
            opaque = a
            continue
        if conv == 's' and isinstance(a, SymStr):
            cells = list(a.cells)
            if w > len(cells):
                cells = ([' '] * (w - len(cells)) + cells) if '-' not in flags else (cells + [' '] * (w - len(cells)))
            out.extend(cells)
        elif conv in 'sdi' and isinstance(a, SymInt):
            out.extend(SymStr.lift(render_int(a, w, '0' in flags)).cells)
        elif conv == 'd' and isinstance(a, SymFloat):
            out.extend(SymStr.lift(render_int(a.__trunc__(), w, '0' in flags)).cells)
        elif conv == 'f' and hasattr(a, '_sx_format_fixed'):
            out.extend(SymStr.lift(a._sx_format_fixed(int(prec) if prec is not None else 6, w, '0' in flags)).cells)
        elif conv == 'f' and isinstance(a, (SymFloat, SymInt)):
            from . import dtoa
            out.extend(SymStr.lift(dtoa.format_fixed(conv_float(a), int(prec) if prec is not None else 6, w, '0' in flags)).cells)
        elif conv == 's' and isinstance(a, SymFloat):
            from . import dtoa
            try:
                out.extend(SymStr.lift(dtoa.repr_float(a)).cells)
            except E.Unsupported:
                # the shortest-digits text of this float is not modelled: the formatted string is opaque (fine for messages, which are
                # never inspected; inspecting it ends the run as unsupported)
                opaque = Opaque('%s of a symbolic float')
        elif conv == 'r' or conv == 's':
            opaque = Opaque('%%%s of %s' % (conv, type(a).__name__))
        else:
            raise E.Unsupported('format %r of %s' % (m.group(), type(a).__name__))
    out.extend(fmt[pos:])
    if ai < len(args):
        raise TypeError('not all arguments converted during string formatting')
    if opaque is not None:
        return opaque
    from .strings import _mk
    return _mk(out)


_STR_METHODS = {'join', 'replace', 'startswith', 'endswith', 'count', 'find', 'rfind', 'index', 'split',
                'strip', 'lstrip', 'rstrip', 'get', 'pop', 'append', 'format'}


def sx_method(obj, name, *args, **kw):
    if isinstance(obj, str) and not isinstance(obj, (SymStr,)) and _has_sym(args):
        if name == 'format':
            raise E.Unsupported('str.format with symbolic argument')
        return getattr(SymStr.lift(obj), name)(*args, **kw)
    if isinstance(obj, dict) and _side(obj):
        if name == 'get' and args:
            try:
                return sx_getitem(obj, args[0])
            except KeyError:
                return args[1] if len(args) > 1 else kw.get('default', None)
        if name in ('pop', 'popitem', 'setdefault', 'update', 'clear', 'keys', 'values', 'items', 'copy'):
            raise E.Unsupported('dict.%s on a dict holding symbolic keys' % name)
    if isinstance(obj, dict) and name == 'get' and args and is_sym(args[0]):
        try:
            return sx_getitem(obj, args[0])
        except KeyError:
            return args[1] if len(args) > 1 else kw.get('default', None)
    return getattr(obj, name)(*args, **kw)


NAMESPACE = {
    'int': sx_int, 'float': sx_float, 'str': sx_str,
    'max': sx_max, 'min': sx_min, 'print': sx_print, 'repr': sx_repr, 'len': sx_len,
    '__sx_getitem__': sx_getitem, '__sx_contains__': sx_contains, '__sx_mod__': sx_mod,
    '__sx_method__': sx_method, '__sx_setitem__': sx_setitem,
}
