"""Second solver: the assertions of a z3 solver are printed as SMT-LIB 2 and decided by the cvc5 binary.
Returns ('sat' | 'unsat' | 'unknown', model) where model mimics the part of z3's ModelRef the engine uses
(eval of terms by substituting the values of the declared constants)."""
import os
import re
import subprocess
import tempfile

import z3

CVC5 = os.environ.get('VERIF_CVC5', '/usr/bin/cvc5')
_dir = None


def _scratch():
    global _dir
    if _dir is None or not os.path.isdir(_dir):
        _dir = tempfile.mkdtemp(prefix='verif-cvc5-')
        import atexit, shutil
        atexit.register(lambda d=_dir: shutil.rmtree(d, ignore_errors=True))
    return _dir


class TextModel(object):
    def __init__(self, values):
        self.values = values        # list of (z3 const, z3 value)

    def eval(self, t, model_completion=False):
        r = z3.simplify(z3.substitute(t, *self.values)) if self.values else z3.simplify(t)
        if model_completion and not (z3.is_int_value(r) or z3.is_rational_value(r) or z3.is_true(r) or z3.is_false(r) or z3.is_bv_value(r)):
            # constants the solver never saw (they do not occur in the query) take a default value
            rest = _consts([r])
            sub = []
            for c in rest.values():
                if z3.is_int(c):
                    sub.append((c, z3.IntVal(0)))
                elif z3.is_real(c):
                    sub.append((c, z3.RealVal(0)))
                elif z3.is_bool(c):
                    sub.append((c, z3.BoolVal(False)))
                elif z3.is_bv(c):
                    sub.append((c, z3.BitVecVal(0, c.size())))
            if sub:
                r = z3.simplify(z3.substitute(r, *sub))
        return r

    def __getitem__(self, c):
        for k, v in self.values:
            if k.eq(c):
                return v
        return None


def _consts(assertions):
    seen = {}

    def walk(e):
        if z3.is_const(e) and e.decl().kind() == z3.Z3_OP_UNINTERPRETED:
            seen[e.decl().name()] = e
        for ch in e.children():
            key = ch.get_id()
            if key not in visited:
                visited.add(key)
                walk(ch)
    visited = set()
    for a in assertions:
        walk(a)
    return seen


_TOK = re.compile(r'\(|\)|[^\s()]+')


def _parse_sexpr(text):
    toks = _TOK.findall(text)
    pos = 0

    def rd():
        nonlocal pos
        t = toks[pos]
        pos += 1
        if t == '(':
            out = []
            while toks[pos] != ')':
                out.append(rd())
            pos += 1
            return out
        return t
    out = []
    while pos < len(toks):
        out.append(rd())
    return out


def _num(x):
    from fractions import Fraction
    if isinstance(x, list):
        if x[0] == '-' and len(x) == 2:
            return -_num(x[1])
        if x[0] == '/':
            return _num(x[1]) / _num(x[2])
        raise ValueError(x)
    return Fraction(x)


def check(assertions, assumptions, timeout_ms, extra_args=()):
    s = z3.Solver()
    s.add(*assertions)
    for a in assumptions:
        s.add(a)
    consts = _consts(list(assertions) + list(assumptions))
    text = s.to_smt2()
    text = text.replace('(check-sat)', '')
    names = [n for n, c in consts.items() if z3.is_int(c) or z3.is_real(c) or z3.is_bool(c) or z3.is_bv(c)]
    body = '(set-option :produce-models true)\n(set-logic ALL)\n' + text + '\n(check-sat)\n'
    if names:
        body += '(get-value (%s))\n' % ' '.join('|%s|' % n if not re.match(r'^[A-Za-z_][A-Za-z0-9_]*$', n) else n for n in names)
    fn = os.path.join(_scratch(), 'q%d.smt2' % os.getpid())
    with open(fn, 'w') as f:
        f.write(body)
    try:
        p = subprocess.run([CVC5, '--tlimit=%d' % timeout_ms] + list(extra_args) + [fn], capture_output=True, text=True, timeout=timeout_ms / 1000.0 + 10)
    except subprocess.TimeoutExpired:
        return 'unknown', None
    out = p.stdout.strip()
    first = out.split('\n', 1)[0].strip() if out else ''
    if '(error' in out.split('\n', 1)[0] or first not in ('sat', 'unsat', 'unknown'):
        return 'unknown', None
    if first != 'sat':
        # after unsat the trailing (get-value ...) is answered by exactly this error; any other error makes the answer void
        errs = [l for l in out.split('\n')[1:] if '(error' in l]
        if any('Cannot get value unless after a SAT' not in l for l in errs):
            return 'unknown', None
        return first, None
    rest = out.split('\n', 1)[1] if '\n' in out else ''
    values = []
    try:
        for group in _parse_sexpr(rest):
            for pair in group:
                name, val = pair[0], pair[1]
                if isinstance(name, str):
                    name = name.strip('|')
                c = consts.get(name)
                if c is None:
                    continue
                if z3.is_bool(c):
                    values.append((c, z3.BoolVal(val == 'true')))
                elif z3.is_bv(c):
                    if isinstance(val, str) and val.startswith('#b'):
                        n = int(val[2:], 2)
                    elif isinstance(val, str) and val.startswith('#x'):
                        n = int(val[2:], 16)
                    elif isinstance(val, list) and val[0] == '_' and val[1].startswith('bv'):
                        n = int(val[1][2:])
                    else:
                        raise ValueError(val)
                    values.append((c, z3.BitVecVal(n, c.size())))
                else:
                    fr = _num(val)
                    if z3.is_int(c):
                        values.append((c, z3.IntVal(int(fr))))
                    else:
                        values.append((c, z3.RealVal('%d/%d' % (fr.numerator, fr.denominator))))
    except Exception:
        return 'unknown', None
    return 'sat', TextModel(values)
