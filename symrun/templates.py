"""Templates of a regular expression: finite lists of character domains, generated
from the sre parse tree of the live pattern.

A template is a tuple of slots; a slot is a frozenset of characters (the domain of
one symbolic cell).  Every alternative and every optional part is taken both
ways; each repeat is instantiated at its minimum count and at bounded larger
counts (the rule is a parameter and is written into the evidence); character
classes become domains over a representative alphabet:

  literal / set / range  -> exactly those characters
  \\d                     -> ASCII 0-9 plus two non-ASCII decimal digits
  \\s                     -> every character str.isspace()/\\s accepts below U+3001 (29)

At most `max_ws` optional-whitespace (`\\s*`) slots are filled per template.
"""
import re
import re._parser as sp
import re._constants as sc

from .strings import WS_CHARS

DIGITS = '0123456789' + '٣' + '９'     # + ARABIC-INDIC DIGIT THREE, FULLWIDTH DIGIT NINE


class Rule:
    def __init__(self, plus=(1, 3), star=(0, 2), ws=(0, 1), max_ws=1, bounded_extra=True):
        self.plus = plus
        self.star = star
        self.ws = ws
        self.max_ws = max_ws
        self.bounded_extra = bounded_extra

    def counts(self, lo, hi, is_ws):
        if is_ws:
            return sorted({c for c in self.ws if lo <= c and (hi is sc.MAXREPEAT or c <= hi)} | {lo})
        if hi is sc.MAXREPEAT:
            base = self.plus if lo >= 1 else self.star
            return sorted({max(lo, c) for c in base})
        if hi == lo:
            return [lo]
        return sorted({lo, hi})

    def describe(self):
        return ('repeat counts: x+ in %s, x* in %s, x{m,n} in {m,n}, optional both ways; optional whitespace runs: '
                'lengths %s, at most %d filled per template' % (list(self.plus), list(self.star), list(self.ws), self.max_ws))


def _class_domain(items):
    neg = False
    chars = set()
    for op, av in items:
        if op is sc.NEGATE:
            neg = True
        elif op is sc.LITERAL:
            chars.add(chr(av))
        elif op is sc.RANGE:
            if av[1] - av[0] > 64:
                raise ValueError('range too wide for a template domain')
            chars.update(chr(c) for c in range(av[0], av[1] + 1))
        elif op is sc.CATEGORY:
            name = str(av)
            if name == 'CATEGORY_DIGIT':
                chars.update(DIGITS)
            elif name == 'CATEGORY_SPACE':
                chars.update(WS_CHARS)
            else:
                raise ValueError('category %s not supported in templates' % name)
        else:
            raise ValueError('class item %s' % (op,))
    if neg:
        raise ValueError('negated class not supported in templates')
    return frozenset(chars)


def _is_ws_node(sub):
    if len(sub) != 1:
        return False
    op, av = sub[0]
    return op is sc.IN and len(av) == 1 and av[0][0] is sc.CATEGORY and str(av[0][1]) == 'CATEGORY_SPACE'


def _ic_domain(dom):
    from vlib import casefold
    return frozenset(chr(c) for c in casefold.matching_chars([ord(ch) for ch in dom]))


def expand(tree, rule, ic=False):
    """-> list of (template tuple, n_ws_filled)"""
    def seq(items):
        outs = [((), 0)]
        for op, av in items:
            alts = node(op, av)
            new = []
            for (t, w) in outs:
                for (t2, w2) in alts:
                    if w + w2 <= rule.max_ws:
                        new.append((t + t2, w + w2))
            outs = new
        return outs

    def node(op, av):
        if op is sc.LITERAL:
            d = frozenset(chr(av))
            return [(((_ic_domain(d) if ic else d),), 0)]
        if op is sc.IN:
            d = _class_domain(av)
            if ic:
                # \d / \s members are case-invariant; letters get their exact sre case variants
                d = frozenset(c for c in d if not c.isalpha()) | _ic_domain([c for c in d if c.isalpha()])
            return [((d,), 0)]
        if op is sc.AT:
            return [((), 0)]
        if op is sc.BRANCH:
            out = []
            for alt in av[1]:
                out.extend(seq(alt))
            return out
        if op is sc.SUBPATTERN:
            return seq(av[3])
        if op in (sc.MAX_REPEAT, sc.MIN_REPEAT):
            lo, hi, sub = av
            is_ws = _is_ws_node(sub)
            inner = seq(sub)
            out = []
            for c in rule.counts(lo, hi, is_ws):
                cur = [((), 0)]
                for _ in range(c):
                    nxt = []
                    for (t, w) in cur:
                        for (t2, w2) in inner:
                            w3 = w + w2 + (1 if is_ws else 0)
                            if w3 <= rule.max_ws:
                                nxt.append((t + t2, w3))
                    cur = nxt
                out.extend(cur)
            return out
        raise ValueError('node %s not supported in templates' % (op,))

    res = seq(tree)
    seen = set()
    out = []
    for t, w in res:
        if t not in seen:
            seen.add(t)
            out.append(t)
    return out


def templates_of(pattern, rule):
    if hasattr(pattern, 'pattern'):
        flags = pattern.flags
        pattern = pattern.pattern
    else:
        flags = 0
    return expand(sp.parse(pattern, flags), rule, ic=bool(flags & re.IGNORECASE))


def show(t):
    def one(d):
        if len(d) == 1:
            return next(iter(d))
        if d >= set('0123456789'):
            return '\\d'
        if d >= set(' \t'):
            return '\\s'
        return '[' + ''.join(sorted(d)) + ']'
    return ''.join(one(d) for d in t)
