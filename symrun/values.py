"""Proxy values: SymBool, SymInt, SymFloat.

SymInt wraps a z3 Int (default) or a 64-bit bit-vector (inside IEEE harnesses,
where Int<->FP conversion through reals is unusable).  SymFloat wraps either a
z3 Float64 term (bit-precise model, 'F') or a z3 Real (reals-with-monotone-
rounding model, 'R': every operation is R(exact result), see floatmodel.py).
"""
import fractions
import math
import struct

import z3

from . import engine as E

F64 = z3.Float64()
RNE = z3.RNE()
BVW = 64


def is_sym(x):
    return isinstance(x, (SymBool, SymInt, SymFloat)) or getattr(x, '_sx_symbolic', False)


# ------------------------------------------------------------------ bool
class SymBool:
    __slots__ = ('term',)
    _sx_symbolic = True

    def __init__(self, term):
        self.term = term

    def __bool__(self):
        return E.cur().branch(self.term)

    def __and__(self, o):
        return SymBool(z3.And(self.term, _b(o)))
    __rand__ = __and__

    def __or__(self, o):
        return SymBool(z3.Or(self.term, _b(o)))
    __ror__ = __or__

    def __invert__(self):
        return SymBool(z3.Not(self.term))

    def __eq__(self, o):
        return SymBool(self.term == _b(o))

    def __ne__(self, o):
        return SymBool(self.term != _b(o))

    def __hash__(self):
        return hash(bool(self))

    def __repr__(self):
        return 'SymBool(%s)' % self.term


def _b(o):
    if isinstance(o, SymBool):
        return o.term
    if isinstance(o, bool):
        return z3.BoolVal(o)
    if z3.is_bool(o):
        return o
    raise E.Unsupported('bool operand %r' % (o,))


def mkbool(t):
    """z3 Bool -> python bool when decided syntactically, else SymBool"""
    if isinstance(t, bool):
        return t
    if z3.is_true(t):
        return True
    if z3.is_false(t):
        return False
    return SymBool(t)


# ------------------------------------------------------------------ int
def _is_bv(t):
    return z3.is_bv(t)


def float_bits(x):
    return struct.unpack('<Q', struct.pack('<d', x))[0]


def fpval(x):
    return z3.fpBVToFP(z3.BitVecVal(float_bits(float(x)), 64), F64)


def realval(x):
    if isinstance(x, int):
        return z3.RealVal(x)
    fr = fractions.Fraction(x)
    return z3.RealVal('%d/%d' % (fr.numerator, fr.denominator))


class SymInt:
    __slots__ = ('term',)
    _sx_symbolic = True

    def __init__(self, term):
        self.term = term

    # -- helpers
    @property
    def bv(self):
        return _is_bv(self.term)

    def _coerce(self, o):
        """-> z3 term of my sort, or None if o is not an integer-like"""
        if isinstance(o, SymInt):
            if o.bv != self.bv:
                raise E.Unsupported('mixed Int/BV integers')
            return o.term
        if isinstance(o, bool):
            o = int(o)
        if isinstance(o, int):
            return z3.BitVecVal(o, BVW) if self.bv else z3.IntVal(o)
        if isinstance(o, SymBool):
            one, zero = (z3.BitVecVal(1, BVW), z3.BitVecVal(0, BVW)) if self.bv else (z3.IntVal(1), z3.IntVal(0))
            return z3.If(o.term, one, zero)
        return None

    def _new(self, t):
        return SymInt(t)

    def _float(self):
        return SymFloat.from_int(self)

    def _arith(self, o, f, fl):
        t = self._coerce(o)
        if t is not None:
            return self._new(f(self.term, t))
        if isinstance(o, (float, SymFloat)):
            return fl(self._float(), o)
        if hasattr(o, '_sx_rbin'):
            return NotImplemented
        return NotImplemented

    def __add__(self, o):
        return self._arith(o, lambda a, b: a + b, lambda a, b: a + b)

    def __radd__(self, o):
        return self._arith(o, lambda a, b: b + a, lambda a, b: b + a)

    def __sub__(self, o):
        return self._arith(o, lambda a, b: a - b, lambda a, b: a - b)

    def __rsub__(self, o):
        return self._arith(o, lambda a, b: b - a, lambda a, b: b - a)

    def __mul__(self, o):
        if isinstance(o, str) or getattr(o, '_sx_is_str', False):
            return NotImplemented
        return self._arith(o, lambda a, b: a * b, lambda a, b: a * b)

    def __rmul__(self, o):
        if isinstance(o, (str, list, tuple)):
            return o * self.__index__()
        return self._arith(o, lambda a, b: b * a, lambda a, b: b * a)

    def __neg__(self):
        return self._new(-self.term)

    def __pos__(self):
        return self

    def __abs__(self):
        return self._new(z3.If(self.term >= 0, self.term, -self.term))

    def _floordiv_t(self, a, b):
        if self.bv:
            q = a / b           # bvsdiv: truncating
            r = z3.SRem(a, b)
            adj = z3.And(r != 0, (r < 0) != (b < 0))
            return z3.If(adj, q - 1, q)
        # z3 Int div is Euclidean (remainder >= 0): equals floor for b > 0
        return z3.If(b > 0, a / b, (-a) / (-b))

    def _mod_t(self, a, b):
        if self.bv:
            r = z3.SRem(a, b)
            adj = z3.And(r != 0, (r < 0) != (b < 0))
            return z3.If(adj, r + b, r)
        # python: result has the sign of b.  a - b*floor(a/b)
        return a - b * self._floordiv_t(a, b)

    def _nonzero(self, o, swap=False):
        den = self if swap else o
        if isinstance(den, SymInt):
            if den.term_is_zero():
                raise ZeroDivisionError('integer division or modulo by zero')
        elif den == 0:
            raise ZeroDivisionError('integer division or modulo by zero')

    def term_is_zero(self):
        return bool(mkbool(self.term == 0))

    def __floordiv__(self, o):
        t = self._coerce(o)
        if t is None:
            if isinstance(o, (float, SymFloat)):
                return self._float() // o
            return NotImplemented
        self._nonzero(o)
        return self._new(self._floordiv_t(self.term, t))

    def __rfloordiv__(self, o):
        t = self._coerce(o)
        if t is None:
            return NotImplemented
        self._nonzero(o, swap=True)
        return self._new(self._floordiv_t(t, self.term))

    def __mod__(self, o):
        t = self._coerce(o)
        if t is None:
            return NotImplemented
        self._nonzero(o)
        return self._new(self._mod_t(self.term, t))

    def __rmod__(self, o):
        if isinstance(o, str):
            return NotImplemented
        t = self._coerce(o)
        if t is None:
            return NotImplemented
        self._nonzero(o, swap=True)
        return self._new(self._mod_t(t, self.term))

    def __divmod__(self, o):
        return (self // o, self % o)

    def __rdivmod__(self, o):
        return (o // self, o % self)

    def __truediv__(self, o):
        return self._float() / o

    def __rtruediv__(self, o):
        return o / self._float()

    def __pow__(self, o):
        if isinstance(o, int) and 0 <= o <= 4:
            r = 1
            for _ in range(o):
                r = r * self
            return r
        raise E.Unsupported('SymInt ** %r' % (o,))

    def _cmp(self, o, f, fl):
        t = self._coerce(o)
        if t is not None:
            return mkbool(z3.simplify(f(self.term, t)))
        if isinstance(o, (float, SymFloat)):
            return fl(self._float(), o)
        return NotImplemented

    def __lt__(self, o):
        return self._cmp(o, lambda a, b: a < b, lambda a, b: a < b)

    def __le__(self, o):
        return self._cmp(o, lambda a, b: a <= b, lambda a, b: a <= b)

    def __gt__(self, o):
        return self._cmp(o, lambda a, b: a > b, lambda a, b: a > b)

    def __ge__(self, o):
        return self._cmp(o, lambda a, b: a >= b, lambda a, b: a >= b)

    def __eq__(self, o):
        r = self._cmp(o, lambda a, b: a == b, lambda a, b: a == b)
        return False if r is NotImplemented else r

    def __ne__(self, o):
        r = self._cmp(o, lambda a, b: a != b, lambda a, b: a != b)
        return True if r is NotImplemented else r

    def __bool__(self):
        return bool(mkbool(z3.simplify(self.term != 0)))

    def __int__(self):
        raise E.Unsupported('int() of a symbolic integer reached C code (missing shadow)')

    def __index__(self):
        return concretize_int(self)

    def __hash__(self):
        return hash(concretize_int(self))

    def __floor__(self):
        return self

    def __ceil__(self):
        return self

    def __trunc__(self):
        return self

    def __round__(self, n=None):
        return self

    def __float__(self):
        raise E.Unsupported('float() of a symbolic integer reached C code (missing shadow)')

    def __repr__(self):
        return 'SymInt(%s)' % z3.simplify(self.term)

    def __format__(self, spec):
        raise E.Unsupported('format() of symbolic int')

    def __str__(self):
        raise E.Unsupported('str() of a symbolic integer reached C code')


def concretize_int(x, limit=4096):
    """Fork over the feasible values of a symbolic integer (list index, dict key)."""
    eng = E.cur()
    t = z3.simplify(x.term)
    if z3.is_int_value(t):
        return t.as_long()
    if z3.is_bv_value(t):
        return t.as_signed_long()
    n = 0
    while True:
        n += 1
        if n > limit:
            raise E.Unsupported('concretisation of %s needs more than %d values' % (t, limit))
        i = len(eng.decisions)
        if i < len(eng.prefix) and eng.prefix_notes[i] is not None:
            # re-execution: the candidate is the one recorded for this decision (a model-chosen candidate would differ
            # from run to run and the recorded decision would be applied to another condition)
            val = eng.prefix_notes[i]
            v = z3.BitVecVal(val, x.term.size()) if z3.is_bv(x.term) else z3.IntVal(val)
        else:
            m = eng.model()
            if m is False or m is None:
                raise E.PathAbort()
            v = m.eval(x.term, model_completion=True)
            val = v.as_signed_long() if z3.is_bv_value(v) else v.as_long()
        eng.next_note = val
        if eng.branch(x.term == v):
            return val


def symint(name, lo=None, hi=None, bv=False):
    eng = E.cur()
    nm = eng.fresh_name(name)
    t = z3.BitVec(nm, BVW) if bv else z3.Int(nm)
    if lo is not None:
        eng.add(t >= lo)
    if hi is not None:
        eng.add(t <= hi)
    return SymInt(t)


def symbool(name):
    return SymBool(z3.Bool(E.cur().fresh_name(name)))


# ------------------------------------------------------------------ float
class SymFloat:
    """mode 'F': term is a z3 Float64; mode 'R': term is a z3 Real holding the
    exact value of the double (every arithmetic result goes through R())."""
    __slots__ = ('term',)
    _sx_symbolic = True

    def __init__(self, term):
        self.term = term

    @property
    def ieee(self):
        return z3.is_fp(self.term)

    @staticmethod
    def from_int(i):
        if isinstance(i, SymInt):
            if i.bv:
                return SymFloat(z3.fpSignedToFP(RNE, i.term, F64))
            # exact for |i| < 2**53 (asserted by the harness ranges)
            return SymFloat(z3.ToReal(i.term))
        raise E.Unsupported('from_int %r' % (i,))

    def _co(self, o):
        """coerce operand to a term in my model"""
        if isinstance(o, SymFloat):
            if o.ieee != self.ieee:
                raise E.Unsupported('mixed float models')
            return o.term
        if isinstance(o, SymInt):
            f = SymFloat.from_int(o)
            if f.ieee != self.ieee:
                raise E.Unsupported('integer sort does not fit the float model in use')
            return f.term
        if isinstance(o, bool):
            o = int(o)
        if isinstance(o, (int, float)):
            return fpval(o) if self.ieee else realval(float(o) if isinstance(o, int) and abs(o) >= 2 ** 53 else o)
        return None

    def _bin(self, o, ff, fr, swap=False):
        t = self._co(o)
        if t is None:
            return NotImplemented
        a, b = (t, self.term) if swap else (self.term, t)
        if self.ieee:
            return SymFloat(ff(a, b))
        from . import floatmodel
        return SymFloat(floatmodel.rnd(fr(a, b)))

    def __add__(self, o):
        return self._bin(o, lambda a, b: z3.fpAdd(RNE, a, b), lambda a, b: a + b)

    def __radd__(self, o):
        return self._bin(o, lambda a, b: z3.fpAdd(RNE, a, b), lambda a, b: a + b, True)

    def __sub__(self, o):
        return self._bin(o, lambda a, b: z3.fpSub(RNE, a, b), lambda a, b: a - b)

    def __rsub__(self, o):
        return self._bin(o, lambda a, b: z3.fpSub(RNE, a, b), lambda a, b: a - b, True)

    @staticmethod
    def _int_factor(x):
        """x as a symbolic integer if it is one (SymInt, or the exact float of one): a product with a symbolic float is kept linear by
        forking over the integer's values (relay leg counts, small multipliers; more than 128 values is unsupported)"""
        if isinstance(x, SymInt) and not x.bv and not z3.is_int_value(z3.simplify(x.term)):
            return x
        if isinstance(x, SymFloat) and not x.ieee:
            t = x.term
            if z3.is_app(t) and t.decl().kind() == z3.Z3_OP_TO_REAL and not z3.is_int_value(z3.simplify(t.arg(0))):
                return SymInt(t.arg(0))
        return None

    def __mul__(self, o):
        if not self.ieee and not z3.is_rational_value(z3.simplify(self.term)):
            k = SymFloat._int_factor(o)
            if k is not None:
                return self._bin(concretize_int(k, limit=128), lambda a, b: z3.fpMul(RNE, a, b), lambda a, b: a * b)
        if isinstance(o, SymFloat) and not self.ieee and not o.ieee:
            from . import floatmodel
            if o.term.eq(self.term):
                return SymFloat(floatmodel.rnd(floatmodel.sq(self.term)))
            if not (z3.is_rational_value(z3.simplify(o.term)) or z3.is_rational_value(z3.simplify(self.term))):
                k = SymFloat._int_factor(self)
                if k is not None:
                    return o * concretize_int(k, limit=128)
                raise E.Unsupported('product of two different symbolic floats (non-linear) in the reals-with-rounding model')
        return self._bin(o, lambda a, b: z3.fpMul(RNE, a, b), lambda a, b: a * b)

    def __rmul__(self, o):
        if not self.ieee and not z3.is_rational_value(z3.simplify(self.term)):
            k = SymFloat._int_factor(o)
            if k is not None:
                return self._bin(concretize_int(k, limit=128), lambda a, b: z3.fpMul(RNE, a, b), lambda a, b: a * b, True)
        return self._bin(o, lambda a, b: z3.fpMul(RNE, a, b), lambda a, b: a * b, True)

    def _div(self, o, swap):
        den = self if swap else o
        if isinstance(den, (SymFloat, SymInt)):
            z = mkbool(z3.simplify(den.term == 0)) if not (isinstance(den, SymFloat) and den.ieee) else \
                mkbool(z3.simplify(z3.fpIsZero(den.term)))
            if bool(z):
                raise ZeroDivisionError('float division by zero')
        elif den == 0:
            raise ZeroDivisionError('float division by zero')
        if not self.ieee:
            from . import floatmodel
            t = self._co(o)
            if t is None:
                return NotImplemented
            a, b = (t, self.term) if swap else (self.term, t)
            if not z3.is_rational_value(z3.simplify(b)):
                # symbolic denominator: keep the query linear (uninterpreted quotient with its order facts)
                return SymFloat(floatmodel.rnd(floatmodel.divf(a, b)))
        return self._bin(o, lambda a, b: z3.fpDiv(RNE, a, b), lambda a, b: a / b, swap)

    def __truediv__(self, o):
        return self._div(o, False)

    def __rtruediv__(self, o):
        return self._div(o, True)

    def __floordiv__(self, o):
        q = self / o
        return q.__floor__()._float() if isinstance(q, SymFloat) else q

    def __neg__(self):
        return SymFloat(z3.fpNeg(self.term) if self.ieee else -self.term)

    def __pos__(self):
        return self

    def __abs__(self):
        if self.ieee:
            return SymFloat(z3.fpAbs(self.term))
        return SymFloat(z3.If(self.term >= 0, self.term, -self.term))

    def __pow__(self, o):
        from . import floatmodel
        if isinstance(o, int) and not isinstance(o, bool) and o == 2:
            return self * self      # assumption: libm pow(x, 2.0) == fl(x*x)
        if isinstance(o, (int, float)) and float(o) == 2.0:
            return self * self
        return floatmodel.pw(self, o)

    def __rpow__(self, o):
        raise E.Unsupported('constant ** symbolic float')

    def _cmp(self, o, ff, fr):
        t = self._co(o)
        if t is None:
            return NotImplemented
        if self.ieee:
            return mkbool(z3.simplify(ff(self.term, t)))
        return mkbool(z3.simplify(fr(self.term, t)))

    def __lt__(self, o):
        return self._cmp(o, z3.fpLT, lambda a, b: a < b)

    def __le__(self, o):
        return self._cmp(o, z3.fpLEQ, lambda a, b: a <= b)

    def __gt__(self, o):
        return self._cmp(o, z3.fpGT, lambda a, b: a > b)

    def __ge__(self, o):
        return self._cmp(o, z3.fpGEQ, lambda a, b: a >= b)

    def __eq__(self, o):
        r = self._cmp(o, z3.fpEQ, lambda a, b: a == b)
        return False if r is NotImplemented else r

    def __ne__(self, o):
        r = self._cmp(o, lambda a, b: z3.Not(z3.fpEQ(a, b)), lambda a, b: a != b)
        return True if r is NotImplemented else r

    def __bool__(self):
        return bool(self != 0)

    def _toint(self, rm_fp, real_fn):
        if self.ieee:
            return SymInt(z3.fpToSBV(rm_fp, self.term, z3.BitVecSort(BVW)))
        return SymInt(real_fn(self.term))

    def __trunc__(self):
        return self._toint(z3.RTZ(), lambda x: z3.If(x >= 0, z3.ToInt(x), -z3.ToInt(-x)))

    def __floor__(self):
        return self._toint(z3.RTN(), lambda x: z3.ToInt(x))

    def __ceil__(self):
        return self._toint(z3.RTP(), lambda x: -z3.ToInt(-x))

    def __round__(self, ndigits=None):
        """round(x): to the nearest integer, ties to even (python 3); round(x, n) is not modelled"""
        if ndigits is not None:
            if self.ieee or not isinstance(ndigits, int) or isinstance(ndigits, bool) or not (-8 <= ndigits <= 12):
                raise E.Unsupported('round(x, ndigits) of a symbolic float')
            # reals-with-rounding model: the decimal rounding (ties to even) of the value, then the nearest double of that decimal
            # (CPython rounds the exact binary value correctly; in this model the value IS the real number, candidates are replayed)
            from . import floatmodel
            p = z3.RealVal(10) ** ndigits if ndigits >= 0 else 1 / (z3.RealVal(10) ** (-ndigits))
            y = self.term * z3.RealVal(10 ** ndigits) if ndigits >= 0 else self.term / z3.RealVal(10 ** (-ndigits))
            fl = z3.ToInt(y)
            frac = y - z3.ToReal(fl)
            half = z3.RealVal('1/2')
            r = z3.If(frac < half, fl, z3.If(frac > half, fl + 1, z3.If(fl % 2 == 0, fl, fl + 1)))
            q = z3.ToReal(r) / z3.RealVal(10 ** ndigits) if ndigits >= 0 else z3.ToReal(r) * z3.RealVal(10 ** (-ndigits))
            return SymFloat(floatmodel.rnd(q))
        if self.ieee:
            return SymInt(z3.fpToSBV(z3.RNE(), self.term, z3.BitVecSort(BVW)))
        x = self.term
        fl = z3.ToInt(x)
        frac = x - z3.ToReal(fl)
        half = z3.RealVal('1/2')
        return SymInt(z3.If(frac < half, fl, z3.If(frac > half, fl + 1, z3.If(fl % 2 == 0, fl, fl + 1))))

    def __int__(self):
        raise E.Unsupported('int() of a symbolic float reached C code (missing shadow)')

    def __float__(self):
        raise E.Unsupported('float() of a symbolic float reached C code (missing shadow)')

    def __index__(self):
        raise TypeError("'float' object cannot be interpreted as an integer")

    def __hash__(self):
        raise E.Unsupported('hash of symbolic float')

    def __repr__(self):
        return 'SymFloat(%s)' % (self.term,)

    def __str__(self):
        raise E.Unsupported('str() of a symbolic float reached C code')

    def __format__(self, spec):
        raise E.Unsupported('format() of symbolic float')

    def _float(self):
        return self


def symfloat_grid(k, denom):
    """the double nearest to k/denom (what float('12.34'), 12.34 and 1234/100 all give)
    for a symbolic integer k"""
    return SymFloat.from_int(k) / denom
