"""Module state of the library under test, kept identical at the start of every symbolic path.

Paths are enumerated by re-executing the harness; that is only sound when every re-execution starts from the same
library state.  athlib keeps little state (lazily built tables, the schema caches), but a change to the library can add
some (a memo dict keyed by the argument, scratch attributes on a shared object).  Before each path the engine restores

  * the global bindings of every athlib module (a lazily created table bound to a module global is unbound again),
  * every dict / list / set reachable from those globals within a few levels, shallowly, unless it is large,
  * the attribute dicts of instances of athlib classes and the rebindable attributes of athlib classes found on the way

to the contents they had when the snapshot was taken (first exploration in the process, i.e. after the harness's own
concrete warm-up calls).  Comparison is by identity of keys and values, so symbolic values left behind by a path are never
inspected.  What is too deep or too large to be tracked is listed in the evidence (`state_untracked`).
"""
import sys
import types

MAX_LEN = 4000
MAX_DEPTH = 4

_snapshot = None
EXTRA_RESET = []        # callables run with every restore (state kept outside athlib's python modules, e.g. the interpreted JavaScript modules)


def _athlib_modules():
    return [(n, m) for n, m in list(sys.modules.items())
            if (n == 'athlib' or n.startswith('athlib.')) and isinstance(m, types.ModuleType)]


def _is_athlib_class(c):
    return isinstance(c, type) and (getattr(c, '__module__', '') or '').split('.')[0] == 'athlib'


class Snapshot:
    def __init__(self):
        self.modules = []       # (module, saved globals)
        self.containers = []    # (object, saved shallow copy)
        self.classes = []       # (class, saved {name: value}) for non-callable, non-descriptor attributes
        self.untracked = 0
        self.tracked_items = 0
        seen = set()
        for name, mod in _athlib_modules():
            g = dict(mod.__dict__)
            self.modules.append((mod, g))
            for k, v in g.items():
                if k.startswith('__') and k.endswith('__'):
                    continue
                self._visit(v, 0, seen)

    def _visit(self, o, depth, seen):
        if id(o) in seen or depth > MAX_DEPTH:
            return
        t = type(o)
        if t in (dict, list, set) or (isinstance(o, (dict, list, set)) and (t.__module__ or '').split('.')[0] in ('athlib', 'collections')):
            seen.add(id(o))
            if len(o) > MAX_LEN:
                self.untracked += 1
                return
            try:
                saved = t(o) if t in (dict, list, set) else (dict(o) if isinstance(o, dict) else list(o))
            except Exception:
                self.untracked += 1
                return
            self.containers.append((o, saved))
            self.tracked_items += len(o)
            for v in (o.values() if isinstance(o, dict) else o):
                if isinstance(v, (dict, list, set)) or hasattr(v, '__dict__'):
                    self._visit(v, depth + 1, seen)
            return
        if isinstance(o, tuple):
            seen.add(id(o))
            for v in o[:MAX_LEN]:
                if isinstance(v, (dict, list, set)) or hasattr(v, '__dict__'):
                    self._visit(v, depth + 1, seen)
            return
        if _is_athlib_class(o):
            seen.add(id(o))
            saved = {}
            for k, v in vars(o).items():
                if k.startswith('__') and k.endswith('__'):
                    continue
                if callable(v) or isinstance(v, (staticmethod, classmethod, property)) or hasattr(v, '__get__'):
                    continue
                saved[k] = v
                self._visit(v, depth + 1, seen)
            self.classes.append((o, saved))
            return
        if _is_athlib_class(t) and hasattr(o, '__dict__') and isinstance(vars(o), dict):
            seen.add(id(o))
            d = vars(o)
            self.containers.append((d, dict(d)))
            self.tracked_items += len(d)
            for v in list(d.values()):
                if isinstance(v, (dict, list, set, tuple)) or hasattr(v, '__dict__'):
                    self._visit(v, depth + 1, seen)

    # ------------------------------------------------------------------
    @staticmethod
    def _same_dict(o, saved):
        if len(o) != len(saved):
            return False
        for (k1, v1), (k2, v2) in zip(o.items(), saved.items()):
            if k1 is not k2 or v1 is not v2:
                return False
        return True

    def restore(self):
        """-> number of objects whose content had changed"""
        n = 0
        for fn in EXTRA_RESET:
            fn()
        try:
            from .shims import functools_shim
            n += functools_shim.clear_all()          # lru_cache / cache tables made through the shim: empty at the start of every path
        except Exception:
            pass
        for mod, g in self.modules:
            d = mod.__dict__
            if not self._same_dict(d, g):
                n += 1
                for k in [k for k in d if k not in g]:
                    del d[k]
                for k, v in g.items():
                    if d.get(k, _MISSING) is not v:
                        d[k] = v
        for o, saved in self.containers:
            if isinstance(o, dict):
                if not self._same_dict(o, saved):
                    n += 1
                    o.clear()
                    o.update(saved)
            elif isinstance(o, list):
                if len(o) != len(saved) or any(a is not b for a, b in zip(o, saved)):
                    n += 1
                    o[:] = saved
            else:
                if len(o) != len(saved) or any(a not in saved for a in list(o) if _safe_hashable(a)) or any(not _safe_hashable(a) for a in o):
                    n += 1
                    o.clear()
                    o.update(saved)
        for c, saved in self.classes:
            cur = {k: v for k, v in vars(c).items() if k in saved or not (k.startswith('__') or callable(v) or hasattr(v, '__get__'))}
            for k in list(cur):
                if k not in saved:
                    n += 1
                    try:
                        delattr(c, k)
                    except Exception:
                        pass
            for k, v in saved.items():
                if cur.get(k, _MISSING) is not v:
                    n += 1
                    setattr(c, k, v)
        return n


_MISSING = object()


def _safe_hashable(a):
    return type(a) in (str, int, float, tuple, frozenset, bool, type(None), bytes)


def get():
    global _snapshot
    if _snapshot is None:
        _snapshot = Snapshot()
    return _snapshot


def reset():
    """forget the snapshot (the next exploration takes a new one)"""
    global _snapshot
    _snapshot = None
