"""symrun engine: decision tree, re-execution DFS, path conditions, obligations.

The harness function is an ordinary Python callable that builds symbolic inputs
(through the Engine), calls the *real* athlib functions (loaded by symrun.hook)
on them and states obligations with Engine.check().  Every time native code
needs a concrete truth value of a symbolic condition (SymBool.__bool__) the
engine decides it from the path condition or forks.  Paths are enumerated
depth-first by re-executing the harness along the recorded decision prefix.

Exploration is exhaustive or the run is inconclusive (Budget / Unsupported).
"""
import fractions
import time

import z3

_current = None


def cur():
    if _current is None:
        raise RuntimeError('no symrun engine active')
    return _current


def active():
    return _current is not None


class Unsupported(BaseException):
    """The real code used an operation the proxies do not model: the whole run
    is inconclusive.  BaseException so that library `except Exception` clauses
    cannot swallow it."""


class Budget(BaseException):
    pass


class PathAbort(BaseException):
    """Ends the current path silently (infeasible or cut by an assumption)."""


class Obligation:
    __slots__ = ('label', 'pc', 'prop', 'info', 'status', 'model', 'path_id')

    def __init__(self, label, pc, prop, info, path_id):
        self.label = label
        self.pc = pc          # list of z3 Bool
        self.prop = prop      # z3 Bool that must hold under pc
        self.info = info
        self.status = None
        self.model = None
        self.path_id = path_id


class PathResult:
    __slots__ = ('pid', 'decisions', 'pc', 'value', 'exc', 'obligations', 'witness', 'notes', 'feasible')

    def __init__(self):
        self.value = None
        self.exc = None
        self.obligations = []
        self.witness = None
        self.notes = {}
        self.feasible = None


class Engine:
    def __init__(self, max_paths=20000, solver_timeout_ms=60000, check_feasibility=True,
                 inline=True, stats=None, deadline=None, float_mode='R', int_bv=False):
        self.float_mode = float_mode    # 'R' reals with monotone rounding | 'F' IEEE bit-precise
        self.int_bv = int_bv            # integers parsed / created by the shadows are 64-bit bit-vectors
        self.max_paths = max_paths
        self.solver_timeout_ms = solver_timeout_ms
        self.check_feasibility = check_feasibility
        self.inline = inline            # discharge obligations with the path's z3 solver at once
        self.n_solver_calls = 0
        self.solver_time = 0.0
        self.n_paths = 0
        self.n_forks = 0
        self.fresh_id = 0
        self.deadline = deadline
        self.axioms = []                # z3 Bool facts valid on every path (stub contracts)
        self.fallback = False           # second solver (cvc5) when z3 answers unknown
        self.fast_timeout_ms = 500
        self.n_fallback_calls = 0
        self.last_model = None
        self.results = []
        self.restore_state = True       # library module state is put back before every path (symrun/state.py)
        self.n_state_restores = 0
        self.n_reordered = 0
        self.mute = False
        import os as _os
        self.debug_fork = bool(_os.environ.get('SYMRUN_DEBUG_DIVERGE'))

    # ---- symbols ----------------------------------------------------
    def fresh_name(self, base):
        # deterministic per path: names depend on creation order within the run
        self._name_ctr += 1
        return '%s!%d' % (base, self._name_ctr)

    # ---- run loop ---------------------------------------------------
    def explore(self, fn, on_path=None):
        """Run fn() over every feasible path.  fn may return a value or raise
        Exception (both are outcomes).  on_path(PathResult) is called at the end
        of each path, still inside the engine context (solver available)."""
        global _current
        from . import state as _state
        snap = _state.get() if self.restore_state else None
        pending = [([], [], [])]
        try:
            return self._explore(fn, on_path, pending, snap)
        finally:
            if snap is not None:
                snap.restore()

    def _explore(self, fn, on_path, pending, snap):
        global _current
        while pending:
            if self.deadline and time.time() > self.deadline:
                raise Budget('time budget exhausted after %d paths' % self.n_paths)
            prefix, prefix_hashes, prefix_notes = pending.pop()
            if snap is not None:
                self.n_state_restores += 1 if snap.restore() else 0
            self.prefix = prefix
            self.prefix_hashes = prefix_hashes
            self.prefix_notes = prefix_notes
            self.dec_notes = []
            self.next_note = None
            self.mute = False
            self.decisions = []
            self.dec_hashes = []
            self.symstore = {}             # id(dict) -> (dict, [(symbolic key, value)]): stores under a symbolic key on this path
            self.pc = []
            self.solver = z3.Solver()
            self.solver.set('timeout', self.solver_timeout_ms)
            for a in self.axioms:
                self.solver.add(a)
            self.pending = pending
            self._name_ctr = 0
            self.celldom = {}
            self.path_axioms = []
            self.r_apps = []      # applications of the rounding function R (real-float model)
            self.pw_apps = []     # applications of the pow stub
            self.path_tables = set()
            self.bounds = {}
            self.r_copy = 0
            self.r_copy_index = {}
            self.r_copy_apps = {}
            self.overapprox_used = False   # a stub chose a value from a sound over-approximation on this path
            self.decided = {}              # z3 ast id -> truth value already fixed on this path (syntactic re-use, no solver call)
            self._decided_keep = []
            res = PathResult()
            res.pid = self.n_paths
            self.path = res
            prev = _current
            _current = self
            try:
                try:
                    res.value = fn()
                except PathAbort:
                    res.feasible = False
                except Unsupported:
                    # an unmodelled operation on a path that is in fact dead (a trusted fork whose path condition is
                    # unsatisfiable) is not an obstacle: only a feasible path makes the run inconclusive
                    if self.check_feasibility and self._check() == 'unsat':
                        res.feasible = False
                    else:
                        raise
                except Exception as e:          # outcome of the code under test
                    res.exc = e
                res.decisions = list(self.decisions)
                res.pc = list(self.pc)
                if res.feasible is None:
                    self.n_paths += 1
                    if self.n_paths > self.max_paths:
                        raise Budget('more than %d paths' % self.max_paths)
                    if on_path is not None:
                        on_path(res)
                    self.results.append(res)
            finally:
                _current = prev
        return self.results

    # ---- decisions --------------------------------------------------
    def _check(self, *assumptions):
        t = time.time()
        self.last_model = None
        if self.fallback and self.fast_timeout_ms:
            self.solver.set('timeout', self.fast_timeout_ms)
        r = str(self.solver.check(*assumptions))
        if r == 'sat':
            self.last_model = self.solver.model()
        self.n_solver_calls += 1
        if r == 'unknown' and self.fallback:
            # z3 gives up quickly on some mixed integer/real queries with uninterpreted functions that cvc5 decides in a
            # second: hand the same assertions to cvc5 as SMT-LIB text
            from . import cvc5_backend
            r, m = cvc5_backend.check(self.solver.assertions(), assumptions, min(self.solver_timeout_ms, 20000))
            self.last_model = m
            self.n_fallback_calls += 1
            if r == 'unknown':
                # third try: z3 again with the full budget (some queries need seconds, not the 500 ms of the first try); three times the
                # nominal budget, because wall-clock limits are the only thing a loaded machine can turn into an `unknown`
                self.solver.set('timeout', 3 * self.solver_timeout_ms)
                r = str(self.solver.check(*assumptions))
                self.n_solver_calls += 1
                if r == 'sat':
                    self.last_model = self.solver.model()
        self.solver_time += time.time() - t
        return r

    def add(self, c):
        """Add a constraint to the path condition (assumption of the harness or
        consequence of a decision)."""
        self.pc.append(c)
        self.solver.add(c)
        self._note_bounds(c)

    # ---- cheap interval reasoning for atoms  var <op> numeral  (saves the solver calls of table-scan loops)
    @staticmethod
    def _atom(t):
        """-> (var name, op, Fraction) with op in '<', '<=', '>', '>=' for an atom over one uninterpreted constant, else None"""
        neg = False
        while z3.is_not(t):
            neg = not neg
            t = t.arg(0)
        k = t.decl().kind()
        ops = {z3.Z3_OP_LT: '<', z3.Z3_OP_LE: '<=', z3.Z3_OP_GT: '>', z3.Z3_OP_GE: '>='}
        if k not in ops or t.num_args() != 2:
            return None
        a, b = t.arg(0), t.arg(1)
        op = ops[k]

        def isvar(x):
            return z3.is_const(x) and x.decl().kind() == z3.Z3_OP_UNINTERPRETED

        def num(x):
            if z3.is_int_value(x):
                return fractions.Fraction(x.as_long())
            if z3.is_rational_value(x):
                return fractions.Fraction(x.numerator_as_long(), x.denominator_as_long())
            return None
        if isvar(a) and num(b) is not None:
            v, c = a, num(b)
        elif isvar(b) and num(a) is not None:
            v, c = b, num(a)
            op = {'<': '>', '<=': '>=', '>': '<', '>=': '<='}[op]
        else:
            return None
        if neg:
            op = {'<': '>=', '<=': '>', '>': '<=', '>=': '<'}[op]
        return v.decl().name(), op, c

    def _note_bounds(self, c):
        if z3.is_and(c):
            for ch in c.children():
                self._note_bounds(ch)
            return
        at = self._atom(c)
        if at is None:
            return
        name, op, val = at
        lo, los, hi, his = self.bounds.get(name, (None, False, None, False))
        if op in ('>', '>='):
            strict = op == '>'
            if lo is None or val > lo or (val == lo and strict and not los):
                lo, los = val, strict
        else:
            strict = op == '<'
            if hi is None or val < hi or (val == hi and strict and not his):
                hi, his = val, strict
        self.bounds[name] = (lo, los, hi, his)

    def _interval_decide(self, t):
        at = self._atom(t)
        if at is None:
            return None
        name, op, val = at
        b = self.bounds.get(name)
        if b is None:
            return None
        lo, los, hi, his = b
        if op in ('>', '>='):
            if lo is not None and (lo > val or (lo == val and (los or op == '>='))):
                return True
            if hi is not None and (hi < val or (hi == val and (his or op == '>'))):
                return False
        else:
            if hi is not None and (hi < val or (hi == val and (his or op == '<='))):
                return True
            if lo is not None and (lo > val or (lo == val and (los or op == '<'))):
                return False
        return None

    def assume(self, c):
        """Harness assumption.  Aborts the path if it contradicts the path so far."""
        from .values import SymBool
        if isinstance(c, SymBool):
            c = c.term
        if c is True:
            return
        if c is False:
            raise PathAbort()
        c = z3.simplify(c)
        if z3.is_true(c):
            return
        if z3.is_false(c):
            raise PathAbort()
        self.add(c)

    def branch(self, t, trust_feasible=False):
        """Decide the truth of z3 Bool t on this path; fork when both are possible."""
        if z3.is_true(t):
            self.next_note = None
            return True
        if z3.is_false(t):
            self.next_note = None
            return False
        i = len(self.decisions)
        self.dec_hashes.append(t)                   # the condition itself (hash-consed z3 term), compared on re-execution
        self.dec_notes.append(self.next_note)       # candidate value of a concretisation step (values.concretize_int), else None
        self.next_note = None
        if i < len(self.prefix):
            rec = self.prefix_hashes[i]
            if not t.eq(rec):
                # not the very term the prefix was recorded for.  The same condition written in another order (a set iterated in
                # another order) is accepted after the solver has shown the two equivalent; anything else means the re-execution
                # took a different course (state carried over from another path, a non-deterministic harness): inconclusive
                s2 = z3.Solver()
                s2.set('timeout', 20000)
                s2.add(t != rec)
                self.n_solver_calls += 1
                if str(s2.check()) != 'unsat':
                    if self.debug_fork:
                        open('/tmp/_rec.txt', 'w').write(rec.sexpr())
                        open('/tmp/_now.txt', 'w').write(t.sexpr())
                    raise Unsupported('re-execution diverged from the recorded path at decision %d' % i)
                self.n_reordered += 1
            d = self.prefix[i]
            self.decisions.append(d)
            self.add(t if d else z3.Not(t))
            self._remember(t, d)
            return d
        known = self.decided.get(t.get_id())
        if known is not None:
            # the same condition (or its negation) was decided earlier on this path, e.g. by the other implementation of a
            # differential harness: recorded as a decision so that re-execution indexes alike
            self.decisions.append(known)
            return known
        quick = self._interval_decide(t) if (self.check_feasibility and not trust_feasible) else None
        if quick is not None:
            # implied by the bounds already on the path: recorded as a decision (re-execution must index alike), no solver call
            self.decisions.append(quick)
            self.add(t if quick else z3.Not(t))
            self._remember(t, quick)
            return quick
        if trust_feasible or not self.check_feasibility:
            can_t = can_f = True
        else:
            can_t = self._check(t) != 'unsat'
            can_f = self._check(z3.Not(t)) != 'unsat' if can_t else True
            if not can_t and not can_f:
                raise PathAbort()
        if can_t and can_f:
            self.n_forks += 1
            self.pending.append((self.decisions + [False], list(self.dec_hashes), list(self.dec_notes)))
            if self.debug_fork:
                print('FORK at %d: %s' % (i, t.sexpr()[:600]), flush=True)
            d = True
        else:
            d = can_t
        self.decisions.append(d)
        self.add(t if d else z3.Not(t))
        self._remember(t, d)
        return d

    def _remember(self, t, d):
        nt = z3.Not(t)
        self._decided_keep.append((t, nt))
        self.decided[t.get_id()] = d
        self.decided[nt.get_id()] = not d

    def choose(self, n, label='choice'):
        """Non-deterministic choice among range(n) as a chain of forks (harness use)."""
        v = z3.Int(self.fresh_name(label))
        self.add(z3.And(v >= 0, v < n))
        for k in range(n - 1):
            if self.branch(v == k, trust_feasible=True):
                return k
        return n - 1

    # ---- obligations ------------------------------------------------
    def check(self, prop, label, info=None):
        """State that `prop` must hold on this path.  Returns the Obligation."""
        from .values import SymBool
        if isinstance(prop, SymBool):
            prop = prop.term
        if isinstance(prop, bool):
            prop = z3.BoolVal(prop)
        if self.mute:
            # a priming run (hc.Runner.prime): the code runs for the state it leaves behind, its clauses are not obligations
            ob = Obligation(label, [], prop, info, self.path.pid)
            ob.status = 'trivial'
            return ob
        ob = Obligation(label, list(self.pc) + self._side_axioms(), prop, info, self.path.pid)
        self.path.obligations.append(ob)
        sp = z3.simplify(prop)
        if z3.is_true(sp):
            ob.status = 'trivial'
            return ob
        if self.inline:
            self.discharge_inline(ob)
        return ob

    def _side_axioms(self):
        return list(self.path_axioms)

    def add_axiom(self, c):
        """a fact about a stub (rounding function, pow) valid whenever the application exists: known to the
        path solver at once (so feasibility checks see it) and carried into every obligation of the path"""
        self.path_axioms.append(c)
        self.solver.add(c)

    def discharge_inline(self, ob):
        self.solver.push()
        try:
            self.solver.add(z3.Not(ob.prop))
            r = self._check()
            if r == 'unsat':
                ob.status = 'unsat'
            elif r == 'sat':
                ob.status = 'sat'
                ob.model = self.last_model
            else:
                ob.status = 'unknown'
        finally:
            self.solver.pop()

    def resolve(self, ob, extra):
        """decide an obligation again under additional constraints (used to exclude recorded known findings);
        returns (status, model)"""
        s = z3.Solver()
        s.set('timeout', self.solver_timeout_ms)
        for a in self.axioms:
            s.add(a)
        for c in ob.pc:
            s.add(c)
        for c in extra:
            s.add(c)
        s.add(z3.Not(ob.prop))
        if self.float_mode == 'F':
            from . import cvc5_backend
            return cvc5_backend.check(s.assertions(), [], max(self.solver_timeout_ms, 600000))
        saved = self.solver
        self.solver = s
        try:
            r = self._check()
            return r, self.last_model
        finally:
            self.solver = saved

    def model(self):
        """A model of the current path condition (reachability witness) or None."""
        self.solver.push()
        try:
            r = self._check()
            if r == 'sat':
                return self.last_model
            if r == 'unsat':
                return False
            return None
        finally:
            self.solver.pop()
