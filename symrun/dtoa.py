"""Number -> text for symbolic floats.

format_fixed(x, prec): model of '%.<prec>f' % x.  CPython's float formatting is
correctly rounded (David Gay's dtoa, round-half-even on the exact binary value),
so the text denotes the integer V = round(|x| * 10**prec).  In the reals-with-
rounding model V is a fresh integer constrained by  |x| * 10**prec - 1/2 <= V <=
|x| * 10**prec + 1/2  (at an exact tie either neighbour is allowed: an
over-approximation of half-even); the digits are cells tied to V.

repr(float) (shortest round-trip digits, exponent notation below 1e-4 / from
1e16) is not modelled: reaching it makes the run inconclusive.
"""
import z3

from . import engine as E
from .values import SymFloat, SymInt
from .strings import SymStr, Cell, symcell, _mk
from .shadow import render_int


def format_fixed(x, prec, width=0, zero=False):
    eng = E.cur()
    if not isinstance(x, SymFloat):
        return ('%0*.*f' if zero else '%*.*f') % (width, prec, x)
    if x.ieee:
        raise E.Unsupported("'%.Nf' of a bit-precise symbolic float")
    neg = bool(x < 0)
    ax = -x.term if neg else x.term
    V = z3.Int(eng.fresh_name('fx'))
    scaled = ax * (10 ** prec)
    if getattr(eng, 'exact_floats', False):
        # exact-real mode: an exact decimal tie (dropped digits exactly 5) is rounded by the binary representation of the double,
        # which this mode does not see: such inputs are cut from the path (outside the claim, stated by the harness)
        eng.add(z3.And(V >= 0, scaled - V < z3.RealVal('1/2'), V - scaled < z3.RealVal('1/2')))
    else:
        eng.add(z3.And(V >= 0, scaled - V <= z3.RealVal('1/2'), V - scaled <= z3.RealVal('1/2')))
    p = 10 ** prec
    ip = SymInt(V / p)
    cells = list(SymStr.lift(render_int(ip)).cells)
    if prec:
        cells.append('.')
        fr = z3.IntVal(0)
        for i in range(prec):
            c = symcell('0123456789', 'fd')
            cells.append(c)
            fr = fr * 10 + ((c.var - 48) if isinstance(c, Cell) else (ord(c) - 48))
        eng.add(fr == V % p)
    if neg:
        cells = ['-'] + cells
    pad = width - len(cells)
    if pad > 0:
        if zero:
            cells = (['-'] if neg else []) + ['0'] * pad + (cells[1:] if neg else cells)
        else:
            cells = [' '] * pad + cells
    return _mk(cells)


def repr_float(x):
    raise E.Unsupported('repr()/str() of a symbolic float (shortest-digits dtoa is not modelled)')
