"""The 'reals with monotone rounding' float model and the pow stub.

R : Real -> Real is an uninterpreted function standing for round-to-nearest-even
to double.  For the finitely many applications on a path we instantiate the IEEE
facts that the order/tolerance proofs need:

    x <= y  =>  R(x) <= R(y)                      (rounding is monotone)
    x >= 0  =>  R(x) >= 0,   x <= 0 => R(x) <= 0   (sign)
    |R(x) - x| <= 2**-53 |x|                      (normal range; harness asserts ranges)
    x an integer, |x| <= 2**53  =>  R(x) = x      (integers are exactly representable)
    c a double constant:  x <= c => R(x) <= c,  x >= c => R(x) >= c   (never crosses a double)

PW : Real x Real -> Real stands for libm pow(base, exponent) on base >= 0 with a
positive, non-integer exponent: non-negative and monotone non-decreasing in the
base (instances per pair of applications with the same exponent).  Values of
pow are NOT modelled: order properties through pow are proved, values are not.
"""
import fractions

import z3

from . import engine as E

R = z3.Function('R', z3.RealSort(), z3.RealSort())
PW = z3.Function('PW', z3.RealSort(), z3.RealSort(), z3.RealSort())
PWF = z3.Function('PWF', z3.Float64(), z3.Float64(), z3.Float64())
EPS = z3.RealVal('1/9007199254740992')   # 2**-53
TWO53 = z3.RealVal(2 ** 53)


def _is_double_const(t):
    """t is a rational numeral that is exactly a double"""
    if not z3.is_rational_value(t):
        return False
    fr = fractions.Fraction(t.numerator_as_long(), t.denominator_as_long())
    try:
        return fractions.Fraction(float(fr)) == fr
    except OverflowError:
        return False


def rnd(exact):
    exact = z3.simplify(exact)
    if z3.is_rational_value(exact):
        if _is_double_const(exact):
            return exact
        fr = fractions.Fraction(exact.numerator_as_long(), exact.denominator_as_long())
        from .values import realval
        return realval(float(fr))       # python's correctly rounded Fraction -> float
    eng = E.cur()
    app = R(exact)
    for (a, _) in eng.r_apps:
        if a.eq(exact):
            return app
    a, ra = exact, app
    ax = eng.add_axiom
    ax(z3.Implies(a >= 0, z3.And(ra >= 0, ra - a <= EPS * a, a - ra <= EPS * a)))
    ax(z3.Implies(a <= 0, z3.And(ra <= 0, ra - a <= -EPS * a, a - ra <= -EPS * a)))
    ax(z3.Implies(z3.And(z3.IsInt(a), a <= TWO53, a >= -TWO53), ra == a))
    for (b, rb) in eng.r_apps:
        ax(z3.Implies(a <= b, ra <= rb))
        ax(z3.Implies(b <= a, rb <= ra))
    for c in getattr(eng, 'double_consts', ()):
        ax(z3.Implies(a <= c, ra <= c))
        ax(z3.Implies(a >= c, ra >= c))
    eng.r_apps.append((exact, app))
    return app


def pw(x, o):
    from .values import SymFloat, fpval, realval, mkbool
    if not isinstance(o, (int, float)):
        raise E.Unsupported('pow with symbolic exponent')
    neg = (x < 0)
    if bool(neg):
        # python gives a complex number here; every athlib use feeds it to int() next
        raise TypeError("int() argument must be a string, a bytes-like object or a real number, not 'complex'")
    if x.ieee:
        return SymFloat(PWF(x.term, fpval(float(o))))
    eng = E.cur()
    e = realval(float(o))
    app = PW(x.term, e)
    eng.add_axiom(app >= 0)
    for (b2, e2, p2) in eng.pw_apps:
        if e2 == float(o) and e2 > 0:
            eng.add_axiom(z3.Implies(x.term <= b2, app <= p2))
            eng.add_axiom(z3.Implies(b2 <= x.term, p2 <= app))
    eng.pw_apps.append((x.term, float(o), app))
    return SymFloat(app)
