"""The 'reals with monotone rounding' float model and the pow stub.

R : Real -> Real is an uninterpreted function standing for round-to-nearest-even
to double.  For the finitely many applications on a path we instantiate the IEEE
facts that the order/tolerance proofs need:

    x <= y  =>  R(x) <= R(y)                      (rounding is monotone)
    x >= 0  =>  R(x) >= 0,   x <= 0 => R(x) <= 0   (sign)
    |R(x) - x| <= 2**-53 |x|                      (normal range; harness asserts ranges)
    x an integer, |x| <= 2**53  =>  R(x) = x      (integers are exactly representable)
    c a double constant:  x <= c => R(x) <= c,  x >= c => R(x) >= c   (never crosses a double)

PW : Real x Real -> Real stands for libm pow(base, exponent) on base >= 0 with a
positive, non-integer exponent: non-negative and monotone non-decreasing in the
base (instances per pair of applications with the same exponent).  Values of
pow are NOT modelled: order properties through pow are proved, values are not.
"""
import fractions

import z3

from . import engine as E

R = z3.Function('R', z3.RealSort(), z3.RealSort())
PW = z3.Function('PW', z3.RealSort(), z3.RealSort(), z3.RealSort())
PWF = z3.Function('PWF', z3.Float64(), z3.Float64(), z3.Float64())
SQ = z3.Function('SQ', z3.RealSort(), z3.RealSort())
DIVF = z3.Function('DIVF', z3.RealSort(), z3.RealSort(), z3.RealSort())
EPS = z3.RealVal('1/9007199254740992')   # 2**-53
TWO53 = z3.RealVal(2 ** 53)


def _is_double_const(t):
    """t is a rational numeral that is exactly a double"""
    if not z3.is_rational_value(t):
        return False
    fr = fractions.Fraction(t.numerator_as_long(), t.denominator_as_long())
    try:
        return fractions.Fraction(float(fr)) == fr
    except OverflowError:
        return False


def _int_valued(t, depth=0):
    """t is syntactically an integer: integer numerals, to_real of integer terms, and their sums / products / negations"""
    if depth > 40:
        return False
    if z3.is_rational_value(t):
        return t.denominator_as_long() == 1
    if z3.is_app_of(t, z3.Z3_OP_TO_REAL):
        return True
    if z3.is_app(t) and t.decl().kind() in (z3.Z3_OP_ADD, z3.Z3_OP_MUL, z3.Z3_OP_SUB, z3.Z3_OP_UMINUS):
        return all(_int_valued(c, depth + 1) for c in t.children())
    return False


def rnd(exact):
    exact = z3.simplify(exact)
    if z3.is_rational_value(exact):
        if _is_double_const(exact):
            return exact
        fr = fractions.Fraction(exact.numerator_as_long(), exact.denominator_as_long())
        from .values import realval
        return realval(float(fr))       # python's correctly rounded Fraction -> float
    if z3.is_app(exact) and exact.decl().eq(R):
        return exact                    # already a double: rounding a representable value is exact
    eng = E.cur()
    if getattr(eng, 'small_ints', False) and _int_valued(exact):
        return exact                    # harness bound: every integer quantity of the run is below 2**53, hence a double
    if getattr(eng, 'exact_floats', False):
        # harness-level assumption (stated in its evidence): every float comparison on this path has an exact-arithmetic gap far above
        # the accumulated rounding error, so the doubles are modelled by their exact real values
        return exact
    app = R(exact)
    for (a, _) in eng.r_apps:
        if a.eq(exact):
            return app
    a, ra = exact, app
    ax = eng.add_axiom
    kinds = getattr(eng, 'r_axioms', ('mono', 'sign', 'err', 'int'))
    if 'err' in kinds:
        ax(z3.Implies(a >= 0, z3.And(ra >= 0, ra - a <= EPS * a, a - ra <= EPS * a)))
        ax(z3.Implies(a <= 0, z3.And(ra <= 0, ra - a <= -EPS * a, a - ra <= -EPS * a)))
    elif 'sign' in kinds:
        ax(z3.Implies(a >= 0, ra >= 0))
        ax(z3.Implies(a <= 0, ra <= 0))
    if 'int' in kinds:
        ax(z3.Implies(z3.And(z3.IsInt(a), a <= TWO53, a >= -TWO53), ra == a))
    # monotonicity instances: all pairs by default; in 'paired' mode (two runs of the same code on two inputs,
    # eng.r_copy = 1 / 2 set by the harness) only the corresponding application of the other copy
    copy = getattr(eng, 'r_copy', 0)
    if 'paired' in kinds and copy:
        idx = eng.r_copy_index.get(copy, 0)
        eng.r_copy_index[copy] = idx + 1
        eng.r_copy_apps.setdefault(copy, []).append((exact, app))
        other = eng.r_copy_apps.get(3 - copy, [])
        partners = [other[idx]] if idx < len(other) else []
        # constants shared by both copies are the same term already; a different path shape falls back to all pairs
        if eng.r_copy_apps.get(3 - copy) and idx >= len(other):
            partners = list(eng.r_apps)
    else:
        partners = list(eng.r_apps)
    for (b, rb) in partners:
        ax(z3.Implies(a <= b, ra <= rb))
        ax(z3.Implies(b <= a, rb <= ra))
    for c in getattr(eng, 'double_consts', ()):
        ax(z3.Implies(a <= c, ra <= c))
        ax(z3.Implies(a >= c, ra >= c))
    eng.r_apps.append((exact, app))
    return app


def pw(x, o):
    from .values import SymFloat, fpval, realval, mkbool
    if not isinstance(o, (int, float)):
        raise E.Unsupported('pow with symbolic exponent')
    neg = (x < 0)
    if bool(neg):
        # python gives a complex number here; every athlib use feeds it to int() next
        raise TypeError("int() argument must be a string, a bytes-like object or a real number, not 'complex'")
    if x.ieee:
        # pow is uninterpreted here: a model may give it any value, so a candidate that does not reproduce is excluded and another one
        # requested (harness/hc.py), instead of ending the run at the first one
        E.cur().overapprox_used = True
        return SymFloat(PWF(x.term, fpval(float(o))))
    eng = E.cur()
    e = realval(float(o))
    app = PW(x.term, e)
    eng.add_axiom(app >= 0)
    for (b2, e2, p2) in eng.pw_apps:
        if e2 == float(o) and e2 > 0:
            eng.add_axiom(z3.Implies(x.term <= b2, app <= p2))
            eng.add_axiom(z3.Implies(b2 <= x.term, p2 <= app))
    eng.pw_apps.append((x.term, float(o), app))
    return SymFloat(app)


def sq(x):
    """exact square of a real term as an uninterpreted function with its order facts (keeps the queries linear):
    SQ >= 0, SQ(0) = 0; increasing on x >= 0, decreasing on x <= 0"""
    eng = E.cur()
    app = SQ(x)
    apps = getattr(eng, 'sq_apps', None)
    if apps is None or getattr(eng, '_sq_path', None) is not eng.path:
        apps = eng.sq_apps = []
        eng._sq_path = eng.path
    for (y, _) in apps:
        if y.eq(x):
            return app
    eng.add_axiom(app >= 0)
    eng.add_axiom(z3.Implies(x == 0, app == 0))
    for (y, sy) in apps:
        eng.add_axiom(z3.Implies(z3.And(x >= 0, y >= x), sy >= app))
        eng.add_axiom(z3.Implies(z3.And(y >= 0, x >= y), app >= sy))
        eng.add_axiom(z3.Implies(z3.And(x <= 0, y <= x), sy >= app))
        eng.add_axiom(z3.Implies(z3.And(y <= 0, x <= y), app >= sy))
    apps.append((x, app))
    return app


def divf(a, b):
    """exact quotient a / b with a symbolic denominator, as an uninterpreted function with the facts order proofs need
    (keeps the queries linear): sign; monotone non-decreasing in a and non-increasing in b on a >= 0, b > 0; and for every constant
    c registered by the harness in eng.div_consts:  b > 0  =>  (DIVF(a, b) >= c  <=>  a >= c * b)  and the same with <=."""
    eng = E.cur()
    app = DIVF(a, b)
    apps = getattr(eng, 'div_apps', None)
    if apps is None or getattr(eng, '_div_path', None) is not eng.path:
        apps = eng.div_apps = []
        eng._div_path = eng.path
    for (x, y, _) in apps:
        if x.eq(a) and y.eq(b):
            return app
    ax = eng.add_axiom
    ax(z3.Implies(z3.And(a >= 0, b > 0), app >= 0))
    ax(z3.Implies(z3.And(a > 0, b > 0), app > 0))
    ax(z3.Implies(z3.And(a == b, b > 0), app == 1))
    for c in getattr(eng, 'div_consts', ()):
        ax(z3.Implies(b > 0, (app >= c) == (a >= c * b)))
        ax(z3.Implies(b > 0, (app <= c) == (a <= c * b)))
    for (x, y, q) in apps:
        ax(z3.Implies(z3.And(a >= 0, x >= 0, b > 0, y > 0, a <= x, b >= y), app <= q))
        ax(z3.Implies(z3.And(a >= 0, x >= 0, b > 0, y > 0, x <= a, y >= b), q <= app))
    apps.append((a, b, app))
    return app
