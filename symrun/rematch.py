"""Symbolic backtracking regex matcher over CPython's sre parse trees.

Follows re's priority order (alternatives left to right, greedy repeats longest
first, lazy repeats shortest first) so that group spans equal those of the real
engine.  Runs on SymStr cells: every character-class test on a symbolic cell
is a domain split (a fork of the symbolic execution).  Validated differentially
against the real `re` (witness replays and tools/selftest_rematch.py).
"""
import re
import re._parser as sp
import re._constants as sc
import functools

from . import engine as E
from .strings import SymStr, cell_test, Cell, _mk


@functools.lru_cache(None)
def _cat_pred(name):
    pat = {'CATEGORY_DIGIT': r'\d', 'CATEGORY_SPACE': r'\s', 'CATEGORY_WORD': r'\w',
           'CATEGORY_NOT_DIGIT': r'\D', 'CATEGORY_NOT_SPACE': r'\S', 'CATEGORY_NOT_WORD': r'\W'}[name]
    rx = re.compile(pat)
    return functools.lru_cache(None)(lambda ch: rx.match(ch) is not None)


def _in_pred(items):
    negate = False
    tests = []
    for op, av in items:
        if op is sc.NEGATE:
            negate = True
        elif op is sc.LITERAL:
            tests.append((lambda c, v=av: ord(c) == v))
        elif op is sc.RANGE:
            tests.append((lambda c, lo=av[0], hi=av[1]: lo <= ord(c) <= hi))
        elif op is sc.CATEGORY:
            tests.append(_cat_pred(str(av)))
        else:
            raise E.Unsupported('charset item %s' % (op,))
    if negate:
        return lambda c: not any(t(c) for t in tests)
    return lambda c: any(t(c) for t in tests)


def _ic_wrap(members_pred_cps):
    """predicate for a literal / set under re.IGNORECASE (exact sre semantics, vlib.casefold)"""
    from vlib import casefold
    targets = casefold.fixed_targets(members_pred_cps)
    return functools.lru_cache(None)(lambda c: casefold.lower(ord(c)) in targets)


def _in_pred_ic(items):
    negate = False
    members = set()
    cats = []
    for op, av in items:
        if op is sc.NEGATE:
            negate = True
        elif op is sc.LITERAL:
            members.add(av)
        elif op is sc.RANGE:
            if av[1] - av[0] > 4096:
                raise E.Unsupported('wide range under IGNORECASE')
            members.update(range(av[0], av[1] + 1))
        elif op is sc.CATEGORY and str(av) in ('CATEGORY_DIGIT', 'CATEGORY_SPACE'):
            cats.append(_cat_pred(str(av)))
        else:
            raise E.Unsupported('charset item %s under IGNORECASE' % (op,))
    base = _ic_wrap(members)
    if negate:
        return lambda c: not (base(c) or any(t(c) for t in cats))
    return lambda c: base(c) or any(t(c) for t in cats)


class _Compiled:
    """parse tree with per-node predicates prepared once"""

    def __init__(self, pattern, flags):
        self.ic = bool(flags & re.IGNORECASE)
        self.tree = sp.parse(pattern, flags)
        self.groups = self.tree.state.groups
        self.groupindex = dict(self.tree.state.groupdict)
        self.preds = {}

    def pred(self, node_id, op, av):
        p = self.preds.get(node_id)
        if p is None:
            if op is sc.LITERAL:
                p = _ic_wrap([av]) if self.ic else (lambda c, v=av: ord(c) == v)
            elif op is sc.NOT_LITERAL:
                if self.ic:
                    q = _ic_wrap([av])
                    p = (lambda c, q=q: not q(c))
                else:
                    p = (lambda c, v=av: ord(c) != v)
            elif op is sc.ANY:
                p = (lambda c: c != '\n')
            elif op is sc.IN:
                p = _in_pred_ic(av) if self.ic else _in_pred(av)
            self.preds[node_id] = p
        return p


@functools.lru_cache(None)
def compiled(pattern, flags):
    return _Compiled(pattern, flags)


def match(pattern, flags, s, pos=0, full=False):
    """returns None or (end, groups) where groups[i] = (start, end) or None, groups[0] the whole match"""
    cp = compiled(pattern, flags)
    cells = SymStr.lift(s).cells
    n = len(cells)
    ngroups = cp.groups

    def m_seq(items, idx, i, groups, k):
        if idx == len(items):
            return k(i, groups)
        op, av = items[idx]

        def rest(j, g):
            return m_seq(items, idx + 1, j, g, k)
        return m_node(op, av, items, idx, i, groups, rest)

    def m_node(op, av, items, idx, i, groups, k):
        if op in (sc.LITERAL, sc.NOT_LITERAL, sc.ANY, sc.IN):
            if i >= n:
                return None
            p = cp.pred((id(items), idx), op, av)
            if cell_test(cells[i], p):
                return k(i + 1, groups)
            return None
        if op is sc.AT:
            if av is sc.AT_BEGINNING or av is sc.AT_BEGINNING_STRING:
                return k(i, groups) if i == 0 else None
            if av is sc.AT_END:
                if i == n:
                    return k(i, groups)
                if i == n - 1 and cell_test(cells[i], lambda c: c == '\n'):
                    return k(i, groups)
                return None
            if av is sc.AT_END_STRING:
                return k(i, groups) if i == n else None
            raise E.Unsupported('AT %s' % (av,))
        if op is sc.BRANCH:
            for alt in av[1]:
                r = m_seq(alt, 0, i, groups, k)
                if r is not None:
                    return r
            return None
        if op is sc.SUBPATTERN:
            group, add_flags, del_flags, sub = av
            if add_flags or del_flags:
                raise E.Unsupported('inline flags')
            if group is None:
                return m_seq(sub, 0, i, groups, k)

            def close(j, g):
                g2 = list(g)
                g2[group] = (i, j)
                return k(j, tuple(g2))
            return m_seq(sub, 0, i, groups, close)
        if op is sc.MAX_REPEAT:
            lo, hi, sub = av

            def rep(count, j, g):
                # greedy: try one more iteration first
                if hi is sc.MAXREPEAT or count < hi:
                    def after(j2, g2):
                        if j2 == j and count >= lo:
                            return None     # empty iteration: stop (as sre does)
                        return rep(count + 1, j2, g2)
                    r = m_seq(sub, 0, j, g, after)
                    if r is not None:
                        return r
                if count >= lo:
                    return k(j, g)
                return None
            return rep(0, i, groups)
        if op is sc.MIN_REPEAT:
            lo, hi, sub = av

            def rep(count, j, g):
                if count >= lo:
                    r = k(j, g)
                    if r is not None:
                        return r
                if hi is sc.MAXREPEAT or count < hi:
                    def after(j2, g2):
                        if j2 == j and count >= lo:
                            return None
                        return rep(count + 1, j2, g2)
                    return m_seq(sub, 0, j, g, after)
                return None
            return rep(0, i, groups)
        raise E.Unsupported('regex node %s' % (op,))

    def final(j, g):
        if full and j != n:
            return None
        return (j, g)

    init = tuple([None] * (ngroups))
    r = m_seq(cp.tree, 0, pos, init, final)
    if r is None:
        return None
    end, groups = r
    g = list(groups)
    g[0] = (pos, end)
    return end, g


class SymMatch:
    def __init__(self, pat, s, groups):
        self.re = pat
        self.string = s
        self._g = groups
        self._index = compiled(pat.pattern, pat.flags).groupindex

    def _gi(self, k):
        if isinstance(k, str):
            return self._index[k]
        return k

    def span(self, k=0):
        sp_ = self._g[self._gi(k)]
        return sp_ if sp_ is not None else (-1, -1)

    def start(self, k=0):
        return self.span(k)[0]

    def end(self, k=0):
        return self.span(k)[1]

    def group(self, *ks):
        if not ks:
            ks = (0,)
        out = []
        for k in ks:
            sp_ = self._g[self._gi(k)]
            out.append(None if sp_ is None else self.string[sp_[0]:sp_[1]])
        return out[0] if len(out) == 1 else tuple(out)

    def groups(self, default=None):
        return tuple(default if sp_ is None else self.string[sp_[0]:sp_[1]] for sp_ in self._g[1:])

    def groupdict(self, default=None):
        return {name: (default if self._g[i] is None else self.string[self._g[i][0]:self._g[i][1]])
                for name, i in self._index.items()}

    def __bool__(self):
        return True
