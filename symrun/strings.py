"""SymStr: a string of concrete length whose characters ("cells") are either
concrete or symbolic code points with a finite domain.

A symbolic cell is (var, fmap): `var` is a z3 Int (the *base* code point chosen
by the solver), `fmap` maps each base code point of the cell's domain to the
character the cell currently shows (identity at creation; upper()/lower()
compose into it).  Tests on a cell split its domain; the engine keeps the
path-refined domain (engine.celldom) so that implied tests cost nothing and
genuine forks are domain splits whose z3 constraint joins the path condition.
"""
import unicodedata

import z3

from . import engine as E
from .values import SymBool, SymInt, SymFloat, mkbool, is_sym

WS_CHARS = [chr(c) for c in range(0x3001) if chr(c).isspace()]   # what str.strip()/\s treat as space (29 chars)


class Cell:
    __slots__ = ('var', 'fmap', 'vid')

    def __init__(self, var, fmap, vid):
        self.var = var
        self.fmap = fmap
        self.vid = vid

    def dom(self):
        return E.cur().celldom[self.vid]

    def chars(self):
        return {self.fmap[b] for b in self.dom()}

    def mapped(self, f):
        nf = {}
        changed = False
        for b, ch in self.fmap.items():
            n = f(ch)
            if len(n) != 1:
                raise E.Unsupported('case mapping changes length for %r' % ch)
            nf[b] = n
            changed = changed or n != ch
        return Cell(self.var, nf, self.vid) if changed else self

    def term(self):
        """z3 Int term of the code point currently shown"""
        dom = sorted(self.dom())
        if all(ord(self.fmap[b]) == b for b in dom):
            return self.var
        t = z3.IntVal(ord(self.fmap[dom[-1]]))
        for b in dom[:-1]:
            t = z3.If(self.var == b, z3.IntVal(ord(self.fmap[b])), t)
        return t

    def __repr__(self):
        try:
            return '<%s>' % ''.join(sorted(self.chars()))[:12]
        except Exception:
            return '<%s?>' % ''.join(sorted(set(self.fmap.values())))[:12]


def _ranges_term(var, cps):
    cps = sorted(cps)
    parts = []
    i = 0
    while i < len(cps):
        j = i
        while j + 1 < len(cps) and cps[j + 1] == cps[j] + 1:
            j += 1
        parts.append(var == cps[i] if i == j else z3.And(var >= cps[i], var <= cps[j]))
        i = j + 1
    return parts[0] if len(parts) == 1 else z3.Or(parts)


def symcell(domain, name='c'):
    """a fresh symbolic character ranging over `domain` (iterable of 1-char strs)"""
    eng = E.cur()
    dom = sorted({ord(c) for c in domain})
    if len(dom) == 1:
        return chr(dom[0])
    nm = eng.fresh_name(name)
    var = z3.Int(nm)
    eng.add(_ranges_term(var, dom))
    eng.celldom[nm] = frozenset(dom)
    return Cell(var, {b: chr(b) for b in dom}, nm)


def cell_test(cell, pred):
    """does the character satisfy pred?  forks (domain split) if undetermined"""
    if isinstance(cell, str):
        return bool(pred(cell))
    eng = E.cur()
    dom = eng.celldom[cell.vid]
    T = frozenset(b for b in dom if pred(cell.fmap[b]))
    if not T:
        return False
    if len(T) == len(dom):
        return True
    d = eng.branch(_ranges_term(cell.var, T), trust_feasible=True)
    eng.celldom[cell.vid] = T if d else dom - T
    return d


def cell_is(cell, ch):
    return cell_test(cell, lambda c: c == ch)


def cell_in(cell, chars):
    return cell_test(cell, lambda c: c in chars)


def cells_equal(a, b):
    if isinstance(a, str) and isinstance(b, str):
        return a == b
    if isinstance(b, str):
        return cell_is(a, b)
    if isinstance(a, str):
        return cell_is(b, a)
    if a.vid == b.vid and a.fmap == b.fmap:
        return True
    if not (a.chars() & b.chars()):
        return False
    return E.cur().branch(a.term() == b.term())


def digit_value(ch):
    try:
        return unicodedata.decimal(ch)
    except ValueError:
        return None


def cell_digit_term(cell):
    """z3 Int term of the decimal value of a cell known to be a decimal digit"""
    if isinstance(cell, str):
        return z3.IntVal(digit_value(cell))
    dom = sorted(cell.dom())
    if all(48 <= b <= 57 and cell.fmap[b] == chr(b) for b in dom):
        return cell.var - 48
    t = z3.IntVal(digit_value(cell.fmap[dom[-1]]))
    for b in dom[:-1]:
        t = z3.If(cell.var == b, z3.IntVal(digit_value(cell.fmap[b])), t)
    return t


class Opaque:
    """A string whose content we do not model (error messages).  Inspecting it
    makes the run inconclusive."""
    _sx_symbolic = True
    _sx_is_str = True

    def __init__(self, what=''):
        self.what = what

    def _no(self, *a, **k):
        raise E.Unsupported('inspection of an unmodelled string (%s)' % self.what)
    __eq__ = __ne__ = __len__ = __getitem__ = __iter__ = __contains__ = __hash__ = _no
    __add__ = __radd__ = lambda self, o: self
    __mod__ = lambda self, o: self

    def __str__(self):
        return '<opaque %s>' % self.what
    __repr__ = __str__


class SymStr:
    _sx_symbolic = True
    _sx_is_str = True
    __slots__ = ('cells',)

    def __init__(self, cells):
        self.cells = list(cells)

    # ---- construction
    @staticmethod
    def lift(s):
        if isinstance(s, SymStr):
            return s
        if isinstance(s, str):
            return SymStr(list(s))
        raise TypeError('expected str, got %s' % type(s).__name__)

    def simplify(self):
        """plain str if every cell is concrete"""
        out = []
        for c in self.cells:
            if isinstance(c, str):
                out.append(c)
            else:
                ch = c.chars()
                if len(ch) == 1:
                    out.append(next(iter(ch)))
                else:
                    return self
        return ''.join(out)

    def is_concrete(self):
        return isinstance(self.simplify(), str)

    # ---- basics
    def __len__(self):
        return len(self.cells)

    def __bool__(self):
        return len(self.cells) > 0

    def __iter__(self):
        for c in self.cells:
            yield c if isinstance(c, str) else SymStr([c])

    def __getitem__(self, i):
        if isinstance(i, slice):
            return _mk(self.cells[i])
        if isinstance(i, SymInt):
            i = i.__index__()
        c = self.cells[i]
        return c if isinstance(c, str) else SymStr([c])

    def __add__(self, o):
        if isinstance(o, Opaque):
            return o
        if isinstance(o, (str, SymStr)):
            return _mk(self.cells + SymStr.lift(o).cells)
        return NotImplemented

    def __radd__(self, o):
        if isinstance(o, str):
            return _mk(list(o) + self.cells)
        return NotImplemented

    def __mul__(self, n):
        return _mk(self.cells * int(n.__index__() if isinstance(n, SymInt) else n))
    __rmul__ = __mul__

    def __mod__(self, o):
        raise E.Unsupported('symbolic format string')

    def __eq__(self, o):
        if isinstance(o, Opaque):
            return o._no()
        if not isinstance(o, (str, SymStr)):
            return False
        oc = SymStr.lift(o).cells
        if len(oc) != len(self.cells):
            return False
        for a, b in zip(self.cells, oc):
            if not cells_equal(a, b):
                return False
        return True

    def __ne__(self, o):
        return not self.__eq__(o)

    def _cmp(self, o):
        """-1, 0, 1 lexicographic (forks)"""
        if not isinstance(o, (str, SymStr)):
            raise TypeError("'<' not supported between instances of 'str' and '%s'" % type(o).__name__)
        oc = SymStr.lift(o).cells
        for a, b in zip(self.cells, oc):
            if cells_equal(a, b):
                continue
            if isinstance(b, str):
                return -1 if cell_test(a, lambda c: c < b) else 1
            if isinstance(a, str):
                return 1 if cell_test(b, lambda c: c < a) else -1
            return -1 if E.cur().branch(a.term() < b.term()) else 1
        return (len(self.cells) > len(oc)) - (len(self.cells) < len(oc))

    def __lt__(self, o):
        return self._cmp(o) < 0

    def __le__(self, o):
        return self._cmp(o) <= 0

    def __gt__(self, o):
        return self._cmp(o) > 0

    def __ge__(self, o):
        return self._cmp(o) >= 0

    def __hash__(self):
        s = self.concretize()
        return hash(s)

    def concretize(self):
        """fork until every cell is a single character; returns a plain str"""
        out = []
        for c in self.cells:
            if isinstance(c, str):
                out.append(c)
                continue
            while True:
                chs = sorted(c.chars())
                if len(chs) == 1:
                    out.append(chs[0])
                    break
                if cell_is(c, chs[0]):
                    out.append(chs[0])
                    break
        return ''.join(out)

    def __repr__(self):
        return 'SymStr(%s)' % ''.join(c if isinstance(c, str) else repr(c) for c in self.cells)

    def __str__(self):
        raise E.Unsupported('str() of a symbolic string reached C code')

    def __format__(self, spec):
        raise E.Unsupported('format() of symbolic string')

    # ---- searching
    def _match_at(self, pos, sub):
        if pos + len(sub) > len(self.cells):
            return False
        for k, ch in enumerate(sub):
            if not cells_equal(self.cells[pos + k], ch):
                return False
        return True

    def __contains__(self, sub):
        return self.find(sub) >= 0

    def find(self, sub, start=0, end=None):
        subc = SymStr.lift(sub).cells
        n = len(self.cells) if end is None else min(end, len(self.cells))
        if not subc:
            return start
        for p in range(start, n - len(subc) + 1):
            if self._match_at(p, subc):
                return p
        return -1

    def rfind(self, sub, start=0, end=None):
        subc = SymStr.lift(sub).cells
        n = len(self.cells) if end is None else min(end, len(self.cells))
        for p in range(n - len(subc), start - 1, -1):
            if self._match_at(p, subc):
                return p
        return -1

    def index(self, sub, *a):
        r = self.find(sub, *a)
        if r < 0:
            raise ValueError('substring not found')
        return r

    def count(self, sub):
        subc = SymStr.lift(sub).cells
        if not subc:
            return len(self.cells) + 1
        n = 0
        p = 0
        while p + len(subc) <= len(self.cells):
            if self._match_at(p, subc):
                n += 1
                p += len(subc)
            else:
                p += 1
        return n

    def startswith(self, pre, start=0):
        if isinstance(pre, tuple):
            return any(self.startswith(p) for p in pre)
        return self._match_at(start, SymStr.lift(pre).cells)

    def endswith(self, suf):
        if isinstance(suf, tuple):
            return any(self.endswith(p) for p in suf)
        sc = SymStr.lift(suf).cells
        if len(sc) > len(self.cells):
            return False
        return self._match_at(len(self.cells) - len(sc), sc)

    # ---- transformations
    def upper(self):
        return _mk([c.upper() if isinstance(c, str) else c.mapped(str.upper) for c in self.cells], check_len=True)

    def lower(self):
        return _mk([c.lower() if isinstance(c, str) else c.mapped(str.lower) for c in self.cells], check_len=True)

    def _strip_pred(self, chars):
        if chars is None:
            return str.isspace
        cs = SymStr.lift(chars).simplify()
        if not isinstance(cs, str):
            raise E.Unsupported('strip with symbolic character set')
        return lambda c: c in cs

    def lstrip(self, chars=None):
        pred = self._strip_pred(chars)
        i = 0
        while i < len(self.cells) and cell_test(self.cells[i], pred):
            i += 1
        return _mk(self.cells[i:])

    def rstrip(self, chars=None):
        pred = self._strip_pred(chars)
        j = len(self.cells)
        while j > 0 and cell_test(self.cells[j - 1], pred):
            j -= 1
        return _mk(self.cells[:j])

    def strip(self, chars=None):
        pred = self._strip_pred(chars)
        i = 0
        while i < len(self.cells) and cell_test(self.cells[i], pred):
            i += 1
        j = len(self.cells)
        while j > i and cell_test(self.cells[j - 1], pred):
            j -= 1
        return _mk(self.cells[i:j])

    def split(self, sep=None, maxsplit=-1):
        out = []
        if sep is None:
            cur = []
            i = 0
            n = len(self.cells)
            while i < n:
                c = self.cells[i]
                if cell_test(c, str.isspace):
                    if cur:
                        out.append(_mk(cur))
                        cur = []
                        if maxsplit >= 0 and len(out) >= maxsplit:
                            rest = SymStr(self.cells[i + 1:]).lstrip()
                            if len(rest):
                                out.append(rest)
                            return out
                else:
                    cur.append(c)
                i += 1
            if cur:
                out.append(_mk(cur))
            return out
        sc = SymStr.lift(sep).cells
        if not sc:
            raise ValueError('empty separator')
        cur = []
        p = 0
        n = len(self.cells)
        while p < n:
            if (maxsplit < 0 or len(out) < maxsplit) and self._match_at(p, sc):
                out.append(_mk(cur))
                cur = []
                p += len(sc)
            else:
                cur.append(self.cells[p])
                p += 1
        out.append(_mk(cur))
        return out

    def replace(self, old, new, count=-1):
        oc = SymStr.lift(old).cells
        nc = SymStr.lift(new).cells
        if not oc:
            raise E.Unsupported('replace of empty string')
        out = []
        p = 0
        n = len(self.cells)
        done = 0
        while p < n:
            if (count < 0 or done < count) and self._match_at(p, oc):
                out.extend(nc)
                p += len(oc)
                done += 1
            else:
                out.append(self.cells[p])
                p += 1
        return _mk(out)

    def join(self, items):
        out = []
        first = True
        for it in items:
            if not first:
                out.extend(self.cells)
            first = False
            if isinstance(it, Opaque):
                return it
            out.extend(SymStr.lift(it).cells)
        return _mk(out)

    def isdigit(self):
        if not self.cells:
            return False
        for c in self.cells:
            if not cell_test(c, str.isdigit):
                return False
        return True

    def isspace(self):
        if not self.cells:
            return False
        for c in self.cells:
            if not cell_test(c, str.isspace):
                return False
        return True

    def _all(self, pred):
        if not self.cells:
            return False
        for c in self.cells:
            if not cell_test(c, pred):
                return False
        return True

    def isalnum(self):
        return self._all(str.isalnum)

    def isalpha(self):
        return self._all(str.isalpha)

    def isdecimal(self):
        return self._all(str.isdecimal)

    def isnumeric(self):
        return self._all(str.isnumeric)

    def isascii(self):
        return all(cell_test(c, str.isascii) for c in self.cells)

    def isupper(self):
        cased = False
        for c in self.cells:
            if cell_test(c, lambda ch: ch.islower() or unicodedata.category(ch) == 'Lt'):
                return False
            if cell_test(c, str.isupper):
                cased = True
        return cased

    def islower(self):
        cased = False
        for c in self.cells:
            if cell_test(c, lambda ch: ch.isupper() or unicodedata.category(ch) == 'Lt'):
                return False
            if cell_test(c, str.islower):
                cased = True
        return cased

    def swapcase(self):
        return _mk([c.swapcase() if isinstance(c, str) else c.mapped(str.swapcase) for c in self.cells])

    def casefold(self):
        return _mk([c.casefold() if isinstance(c, str) else c.mapped(str.casefold) for c in self.cells])

    def zfill(self, w):
        n = len(self.cells)
        if w <= n:
            return self
        if self.cells and cell_test(self.cells[0], lambda ch: ch in '+-'):
            return _mk(self.cells[:1] + ['0'] * (w - n) + self.cells[1:])
        return _mk(['0'] * (w - n) + self.cells)

    def rjust(self, w, fill=' '):
        return _mk([fill] * max(0, w - len(self.cells)) + self.cells)

    def ljust(self, w, fill=' '):
        return _mk(self.cells + [fill] * max(0, w - len(self.cells)))

    def partition(self, sep):
        p = self.find(sep)
        if p < 0:
            return (self, '', '')
        n = len(SymStr.lift(sep).cells)
        return (_mk(self.cells[:p]), sep, _mk(self.cells[p + n:]))

    def rpartition(self, sep):
        p = self.rfind(sep)
        if p < 0:
            return ('', '', self)
        n = len(SymStr.lift(sep).cells)
        return (_mk(self.cells[:p]), sep, _mk(self.cells[p + n:]))

    def removeprefix(self, pre):
        return _mk(self.cells[len(SymStr.lift(pre).cells):]) if self.startswith(pre) else self

    def removesuffix(self, suf):
        n = len(SymStr.lift(suf).cells)
        return _mk(self.cells[:len(self.cells) - n]) if n and self.endswith(suf) else self

    def __getattr__(self, name):
        if name.startswith('__') or name in ('cells',):
            raise AttributeError(name)
        if hasattr(str, name):
            raise E.Unsupported('str.%s on a symbolic string is not modelled' % name)
        raise AttributeError("'str' object has no attribute %r" % name)

    def encode(self, *a):
        raise E.Unsupported('encode of symbolic string')

    def decode(self, *a):
        raise AttributeError("'str' object has no attribute 'decode'")


def _mk(cells, check_len=False):
    """SymStr, or a plain str when everything is concrete"""
    if all(isinstance(c, str) for c in cells):
        return ''.join(cells)
    return SymStr(cells)


def join_on(sep, items):
    """sep.join(items) where sep is a real str and items may hold SymStr"""
    return SymStr.lift(sep).join(items)


# ------------------------------------------------------------------ numbers from text
def _strip_ws_cells(cells):
    s = SymStr(cells).strip()
    return SymStr.lift(s).cells if not isinstance(s, str) else list(s)


def parse_int(s, bv=False):
    """int(str) on a SymStr: optional surrounding whitespace, optional sign, decimal
    digits (any Unicode decimal digit).  Underscore grouping is treated as invalid
    only if it cannot occur; a possible '_' makes the run unsupported."""
    cells = _strip_ws_cells(SymStr.lift(s).cells)
    sign = 1
    if cells and cell_in(cells[0], '+-'):
        if cell_is(cells[0], '-'):
            sign = -1
        cells = cells[1:]
    if not cells:
        raise ValueError('invalid literal for int() with base 10')
    total = z3.IntVal(0)
    for c in cells:
        if not cell_test(c, lambda ch: digit_value(ch) is not None):
            if cell_is(c, '_'):
                raise E.Unsupported("'_' digit grouping in int()")
            raise ValueError('invalid literal for int() with base 10')
        total = total * 10 + cell_digit_term(c)
    total = z3.simplify(total * sign) if sign != 1 else z3.simplify(total)
    if z3.is_int_value(total):
        return total.as_long()
    if bv:
        return SymInt(z3.Int2BV(total, 64))
    return SymInt(total)


def parse_float_parts(s):
    """float(str) on a SymStr restricted to  [ws] [sign] digits [. digits] [ws]  or  . digits
    -> (sign, int_term (z3 Int of all digits), n_frac_digits).  Exponents, inf, nan, '_'
    in the domain make the run unsupported; other shapes raise ValueError as float() does."""
    cells = _strip_ws_cells(SymStr.lift(s).cells)
    sign = 1
    if cells and cell_in(cells[0], '+-'):
        if cell_is(cells[0], '-'):
            sign = -1
        cells = cells[1:]
    if not cells:
        raise ValueError('could not convert string to float')
    total = z3.IntVal(0)
    seen_dot = False
    nfrac = 0
    ndig = 0
    for c in cells:
        if cell_test(c, lambda ch: digit_value(ch) is not None):
            total = total * 10 + cell_digit_term(c)
            ndig += 1
            if seen_dot:
                nfrac += 1
        elif not seen_dot and cell_is(c, '.'):
            seen_dot = True
        else:
            if cell_in(c, '_eEnNiI'):
                raise E.Unsupported('float() text with exponent/underscore/inf/nan possibilities')
            raise ValueError('could not convert string to float')
    if ndig == 0:
        raise ValueError('could not convert string to float')
    return sign, z3.simplify(total), nfrac
