"""Stand-in for `functools` inside athlib's namespaces: lru_cache / cache keep their entries where the engine can see them.

The C implementation hides its table, so entries made on one symbolic path (possibly holding symbolic values) would survive into
the next path and the re-execution would no longer be deterministic.  Here every memo table is a list of (args, kwargs, value)
registered in CACHES; symrun.state empties all of them before every path, and a lookup compares argument tuples with `==`
(python's key semantics for typed=False: 1 and 1.0 are the same key), forking when an argument is symbolic.
"""
import functools as _ft
from functools import *          # noqa: F401,F403  (reduce, partial, wraps, total_ordering ... unchanged)

from .. import engine as E

CACHES = []     # every memo table created through this shim


def _same(a, b):
    if type(a) in (tuple, list) and type(b) in (tuple, list):
        if len(a) != len(b):
            return False
        for x, y in zip(a, b):
            if not _same(x, y):
                return False
        return True
    if isinstance(a, dict) and isinstance(b, dict):
        if len(a) != len(b) or set(a) != set(b):
            return False
        return all(_same(a[k], b[k]) for k in a)
    r = (a == b)
    return bool(r)


def lru_cache(maxsize=128, typed=False):
    if callable(maxsize) and not isinstance(maxsize, bool):
        # used as @lru_cache without parentheses
        return lru_cache(128, False)(maxsize)

    def deco(fn):
        table = []
        CACHES.append(table)
        stats = [0, 0]

        def wrapper(*args, **kw):
            for (a, k, v) in table:
                if typed and ([type(x) for x in a] != [type(x) for x in args]):
                    continue
                if _same(a, args) and _same(k, kw):
                    stats[0] += 1
                    return v
            stats[1] += 1
            v = fn(*args, **kw)
            table.append((args, dict(kw), v))
            if maxsize is not None and maxsize >= 0 and len(table) > maxsize:
                del table[0]
            return v
        wrapper.__wrapped__ = fn
        wrapper.__name__ = getattr(fn, '__name__', 'cached')
        wrapper.__doc__ = getattr(fn, '__doc__', None)
        wrapper.__module__ = getattr(fn, '__module__', None)
        wrapper.__qualname__ = getattr(fn, '__qualname__', wrapper.__name__)
        wrapper.__dict__.update(getattr(fn, '__dict__', {}))
        wrapper.cache_clear = lambda: table.clear()
        wrapper.cache_info = lambda: (stats[0], stats[1], maxsize, len(table))
        wrapper._sx_table = table
        return wrapper
    return deco


def cache(fn):
    return lru_cache(maxsize=None)(fn)


def clear_all():
    n = 0
    for t in CACHES:
        if t:
            n += 1
            del t[:]
    return n
