"""Stand-in for the `re` module inside athlib's namespaces: compiled patterns are
real `re` patterns for concrete strings and run the symbolic matcher on SymStr."""
import re as _re

from .. import engine as E
from ..strings import SymStr, Opaque
from .. import rematch

error = _re.error
UNICODE = _re.UNICODE
IGNORECASE = _re.IGNORECASE
I = _re.I
escape = _re.escape
Match = _re.Match

PATTERNS = []   # every pattern compiled by athlib (for evidence)


class SymPattern:
    def __init__(self, real):
        self._real = real
        self.pattern = real.pattern
        self.flags = real.flags
        self.groups = real.groups
        self.groupindex = real.groupindex
        PATTERNS.append(self)

    def _sym(self, s, pos, full):
        if self.flags & ~(_re.UNICODE | _re.IGNORECASE):
            raise E.Unsupported('regex flags %r' % self.flags)
        r = rematch.match(self.pattern, self.flags, s, pos, full)
        if r is None:
            return None
        return rematch.SymMatch(self, s, r[1])

    def match(self, s, pos=0):
        if isinstance(s, Opaque):
            s._no()
        if isinstance(s, SymStr):
            return self._sym(s, pos, False)
        return self._real.match(s, pos)

    def fullmatch(self, s, pos=0):
        if isinstance(s, SymStr):
            return self._sym(s, pos, True)
        return self._real.fullmatch(s, pos)

    def search(self, s, pos=0):
        if isinstance(s, Opaque):
            s._no()
        if isinstance(s, SymStr):
            if self.pattern.startswith('^'):
                return self._sym(s, pos, False)
            for p in range(pos, len(s) + 1):
                m = self._sym(s, p, False)
                if m is not None:
                    return m
            return None
        return self._real.search(s, pos)

    def sub(self, repl, s, count=0):
        if isinstance(s, SymStr):
            return self._sym_sub(repl, s, count)
        return self._real.sub(repl, s, count)

    def _sym_sub(self, repl, s, count):
        """re.sub on a symbolic string with the symbolic matcher: leftmost non-overlapping matches, scanning as CPython 3.7+ does (an empty
        match is also replaced when it is adjacent to the previous non-empty match); the replacement is a plain string without group
        references (anything else is unsupported)"""
        if callable(repl) or not isinstance(repl, str) or '\\' in repl:
            raise E.Unsupported('re.sub on a symbolic string with a callable / group-referencing replacement')
        from ..strings import _mk
        cells = list(SymStr.lift(s).cells)
        n = len(cells)
        out = []
        pos = 0
        done = 0
        prev_end = -1
        while pos <= n:
            m = self._sym(s, pos, False) if not (count and done >= count) else None
            if m is None:
                if pos < n:
                    out.append(cells[pos])
                pos += 1
                continue
            a, b = m.span()
            out.extend(repl)
            done += 1
            prev_end = b
            if b == a:
                if pos < n:
                    out.append(cells[pos])
                pos += 1
            else:
                pos = b
        return _mk(out)

    def __getattr__(self, name):
        return getattr(self._real, name)

    def __repr__(self):
        return 'SymPattern(%r)' % self.pattern


def compile(pattern, flags=0):
    if isinstance(pattern, SymPattern):
        return pattern
    return SymPattern(_re.compile(pattern, flags))


def match(pattern, s, flags=0):
    return compile(pattern, flags).match(s)


def search(pattern, s, flags=0):
    return compile(pattern, flags).search(s)


def fullmatch(pattern, s, flags=0):
    return compile(pattern, flags).fullmatch(s)


def sub(pattern, repl, s, count=0, flags=0):
    if isinstance(s, SymStr):
        return compile(pattern, flags).sub(repl, s, count)
    if isinstance(pattern, SymPattern):
        pattern = pattern._real
    return _re.sub(pattern, repl, s, count, flags)


def split(pattern, s, maxsplit=0, flags=0):
    if isinstance(s, SymStr):
        raise E.Unsupported('re.split on symbolic string')
    return _re.split(pattern, s, maxsplit, flags)


def findall(pattern, s, flags=0):
    if isinstance(s, SymStr):
        raise E.Unsupported('re.findall on symbolic string')
    return _re.findall(pattern, s, flags)
