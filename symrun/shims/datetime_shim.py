"""Stand-ins for datetime.date, dateutil.relativedelta.relativedelta and
dateutil.parser.parse inside athlib's namespaces.

SymDate = three integers (int or SymInt).  relativedelta(dt1, dt2).years follows
dateutil's algorithm (whole months between the two dates with the day clipped to
the month length, truncated toward zero to years); the same arithmetic core runs
on python ints (validated against the real dateutil, see validate()) and on z3
terms.
"""
import datetime as _dt

import z3

from .. import engine as E
from ..values import SymInt, SymBool, mkbool, is_sym
from ..strings import SymStr, parse_int

_RealDate = _dt.date
timedelta = _dt.timedelta
datetime = _dt.datetime


def _t(x):
    return x.term if isinstance(x, SymInt) else z3.IntVal(int(x))


# ---- arithmetic core, generic over (python ints | z3 terms) ---------------------------------
class _PyOps:
    @staticmethod
    def ite(c, a, b):
        return a if c else b

    @staticmethod
    def and_(*a):
        return all(a)

    @staticmethod
    def or_(*a):
        return any(a)

    @staticmethod
    def div(a, b):
        return a // b

    @staticmethod
    def mod(a, b):
        return a % b


class _Z3Ops:
    ite = staticmethod(z3.If)
    and_ = staticmethod(z3.And)
    or_ = staticmethod(z3.Or)

    @staticmethod
    def div(a, b):
        return a / b          # b > 0 constant: floor

    @staticmethod
    def mod(a, b):
        return a % b


def leap(y, O):
    return O.or_(O.and_(O.mod(y, 4) == 0, O.mod(y, 100) != 0), O.mod(y, 400) == 0)


def days_in_month(y, m, O):
    feb = O.ite(leap(y, O), 29, 28)
    return O.ite(m == 2, feb, O.ite(O.or_(m == 4, m == 6, m == 9, m == 11), 30, 31))


def whole_months(y1, m1, d1, y2, m2, d2, O):
    """dateutil.relativedelta(dt1, dt2): total whole months (negative when dt1 < dt2)"""
    m0 = (y1 - y2) * 12 + (m1 - m2)
    dim = days_in_month(y1, m1, O)
    dclip = O.ite(d2 < dim, d2, dim)
    k1 = y1 * 10000 + m1 * 100 + d1
    k2 = y2 * 10000 + m2 * 100 + d2
    return O.ite(k1 < k2, m0 + O.ite(d1 > dclip, 1, 0), m0 - O.ite(d1 < dclip, 1, 0))


def years_of(months, O):
    return O.ite(months >= 0, O.div(months, 12), -O.div(-months, 12))


# ---- SymDate ----------------------------------------------------------------------------------
class SymDate(object):
    _sx_symbolic = True

    def __init__(self, y, m, d):
        self.year, self.month, self.day = y, m, d

    def _key(self):
        return _t(self.year) * 10000 + _t(self.month) * 100 + _t(self.day)

    @staticmethod
    def of(x):
        if isinstance(x, SymDate):
            return x
        if isinstance(x, _RealDate):       # date or datetime (time of day is midnight for everything athlib builds)
            return SymDate(x.year, x.month, x.day)
        return None

    def _cmp(self, o, f):
        o = SymDate.of(o)
        if o is None:
            return NotImplemented
        return mkbool(z3.simplify(f(self._key(), o._key())))

    def __lt__(self, o): return self._cmp(o, lambda a, b: a < b)
    def __le__(self, o): return self._cmp(o, lambda a, b: a <= b)
    def __gt__(self, o): return self._cmp(o, lambda a, b: a > b)
    def __ge__(self, o): return self._cmp(o, lambda a, b: a >= b)

    def __eq__(self, o):
        r = self._cmp(o, lambda a, b: a == b)
        return False if r is NotImplemented else r

    def __ne__(self, o):
        r = self._cmp(o, lambda a, b: a != b)
        return True if r is NotImplemented else r

    def __hash__(self):
        raise E.Unsupported('hash of symbolic date')

    def __repr__(self):
        return 'SymDate(%r, %r, %r)' % (self.year, self.month, self.day)

    def __getattr__(self, name):
        raise E.Unsupported('date.%s on a symbolic date is not modelled' % name)


def valid_term(y, m, d):
    y, m, d = _t(y), _t(m), _t(d)
    return z3.And(y >= 1, y <= 9999, m >= 1, m <= 12, d >= 1, d <= days_in_month(y, m, _Z3Ops))


class _DMeta(type):
    def __instancecheck__(cls, x):
        return isinstance(x, (_RealDate, SymDate))

    def __call__(cls, y, m, d):
        if not (is_sym(y) or is_sym(m) or is_sym(d)):
            return _RealDate(y, m, d)
        ok = mkbool(z3.simplify(valid_term(y, m, d)))
        if not bool(ok):
            raise ValueError('day is out of range for month')
        return SymDate(y, m, d)

    def __getattr__(cls, name):
        return getattr(_RealDate, name)


class date(metaclass=_DMeta):
    pass


# ---- dateutil.relativedelta --------------------------------------------------------------------
class _SymDelta(object):
    def __init__(self, months):
        self._months = months
        self.years = SymInt(z3.simplify(years_of(months, _Z3Ops)))
        self.months = SymInt(z3.simplify(months - years_of(months, _Z3Ops) * 12))

    def __getattr__(self, name):
        raise E.Unsupported('relativedelta.%s on symbolic dates is not modelled' % name)


def relativedelta(dt1=None, dt2=None, **kw):
    a, b = SymDate.of(dt1), SymDate.of(dt2)
    if kw or a is None or b is None or not (isinstance(dt1, SymDate) or isinstance(dt2, SymDate)):
        from dateutil.relativedelta import relativedelta as real
        if isinstance(dt1, SymDate) or isinstance(dt2, SymDate):
            raise E.Unsupported('relativedelta with keyword arguments on symbolic dates')
        return real(dt1, dt2, **kw)
    months = whole_months(_t(a.year), _t(a.month), _t(a.day), _t(b.year), _t(b.month), _t(b.day), _Z3Ops)
    return _SymDelta(months)


# ---- dateutil.parser.parse -----------------------------------------------------------------------
def iso_fields(y, a, b, dayfirst, O):
    """dateutil's reading of 'YYYY-AA-BB': month AA, day BB; with dayfirst=True day AA, month BB whenever BB can be a month"""
    if dayfirst:
        swap = b <= 12
        return y, O.ite(swap, b, a), O.ite(swap, a, b)
    return y, a, b


def parse(text, *args, **kw):
    if not isinstance(text, SymStr):
        from dateutil.parser import parse as real
        return real(text, *args, **kw)
    # contract: an ISO 'YYYY-MM-DD' text gives midnight of that date (dayfirst as in iso_fields, validated against the
    # real parser at start-up); anything else is outside the model.
    dayfirst = bool(kw.pop('dayfirst', False))
    if args or kw:
        raise E.Unsupported('parse_date options %r on a symbolic text' % (sorted(kw),))
    cells = text.cells
    if len(cells) != 10 or not (text[4] == '-') or not (text[7] == '-'):
        raise E.Unsupported('parse_date of a symbolic text that is not YYYY-MM-DD')
    y, a, b = parse_int(text[0:4]), parse_int(text[5:7]), parse_int(text[8:10])
    y, m, d = iso_fields(_t(y), _t(a), _t(b), dayfirst, _Z3Ops)
    y, m, d = SymInt(z3.simplify(y)), SymInt(z3.simplify(m)), SymInt(z3.simplify(d))
    ok = mkbool(z3.simplify(valid_term(y, m, d)))
    if not bool(ok):
        raise ValueError('day is out of range for month')
    return SymDate(y, m, d)


def validate_parse():
    """iso_fields against the real dateutil parser for every month/day text, both dayfirst settings"""
    from dateutil.parser import parse as real
    n = 0
    bad = []
    for dayfirst in (False, True):
        for a in range(1, 13):
            for b in range(1, 32):
                try:
                    _RealDate(2004, a, b)
                except ValueError:
                    continue
                txt = '2004-%02d-%02d' % (a, b)
                try:
                    r = real(txt, dayfirst=dayfirst)
                    got = (r.year, r.month, r.day)
                except ValueError:
                    got = None
                y, m, d = iso_fields(2004, a, b, dayfirst, _PyOps)
                try:
                    _RealDate(y, m, d)
                    want = (y, m, d)
                except ValueError:
                    want = None
                n += 1
                if got != want:
                    bad.append((txt, dayfirst, got, want))
    return n, bad


# ---- validation of the arithmetic core against the real dateutil -------------------------------------
def validate(full=False):
    """compare years/months of the core (python ints) with dateutil on a sweep of date pairs; returns (#pairs, mismatches)"""
    from dateutil.relativedelta import relativedelta as real
    years = [(2000, 2000), (2000, 1999), (2001, 2000), (2004, 1960), (2003, 1996), (1900, 1896), (2100, 2000), (2023, 2024), (2024, 2023),
             (2020, 1912), (2019, 2008)]
    days = []
    for m in range(1, 13):
        dim = 31 if m in (1, 3, 5, 7, 8, 10, 12) else 30 if m != 2 else 29
        ds = range(1, dim + 1) if full else sorted({1, 2, 15, 27, 28, 29, 30, 31} & set(range(1, dim + 1)))
        days += [(m, d) for d in ds]
    n = 0
    bad = []
    for (ya, yb) in years:
        for (m1, d1) in days:
            try:
                da = _RealDate(ya, m1, d1)
            except ValueError:
                continue
            for (m2, d2) in days:
                try:
                    db = _RealDate(yb, m2, d2)
                except ValueError:
                    continue
                r = real(da, db)
                mo = whole_months(ya, m1, d1, yb, m2, d2, _PyOps)
                yrs = years_of(mo, _PyOps)
                n += 1
                if (r.years, r.months) != (yrs, mo - yrs * 12):
                    bad.append(((ya, m1, d1), (yb, m2, d2), (r.years, r.months), (yrs, mo - yrs * 12)))
    return n, bad
