"""Stand-in for `decimal` inside athlib's namespaces: Decimal(x) is the real
decimal.Decimal for concrete x and an exact scaled integer (SymDecimal) for
symbolic x."""
import decimal as _d

import z3

from .. import engine as E
from ..values import SymInt, SymFloat, SymBool, mkbool, is_sym, fpval
from ..strings import SymStr, parse_float_parts
from .. import floatmodel

_Real = _d.Decimal
InvalidOperation = _d.InvalidOperation
getcontext = _d.getcontext
ROUND_HALF_UP = _d.ROUND_HALF_UP


class SymDecimal:
    """value = num / 10**scale, num a z3 Int term"""
    _sx_symbolic = True
    __slots__ = ('num', 'scale')

    def __init__(self, num, scale):
        self.num = num
        self.scale = scale

    @staticmethod
    def of(x):
        if isinstance(x, SymDecimal):
            return x
        if isinstance(x, _Real):
            if not x.is_finite():
                raise E.Unsupported('non-finite Decimal')
            sign, digits, exp = x.as_tuple()
            n = int(''.join(map(str, digits)) or '0')
            if sign:
                n = -n
            if exp >= 0:
                return SymDecimal(n * 10 ** exp, 0)
            return SymDecimal(n, -exp)
        if isinstance(x, bool):
            x = int(x)
        if isinstance(x, int):
            return SymDecimal(x, 0)
        if isinstance(x, SymInt):
            return SymDecimal(x.term, 0)
        return None

    @staticmethod
    def _lift(n, like):
        """python int -> constant of the sort of `like` (z3 Int or 64-bit bit-vector)"""
        if not isinstance(n, int):
            return n
        if isinstance(like, int):
            return z3.IntVal(n)
        return z3.BitVecVal(n, 64) if z3.is_bv(like) else z3.IntVal(n)

    def _align(self, o):
        o = SymDecimal.of(o)
        if o is None:
            return None
        s = max(self.scale, o.scale)
        a = self.num * (10 ** (s - self.scale)) if s != self.scale else self.num
        b = o.num * (10 ** (s - o.scale)) if s != o.scale else o.num
        a, b = SymDecimal._lift(a, b), SymDecimal._lift(b, a)
        return a, b, s

    def _cmp(self, o, f):
        al = self._align(o)
        if al is None:
            if isinstance(o, (float, SymFloat)):
                raise E.Unsupported('Decimal vs float comparison')
            return NotImplemented
        return mkbool(z3.simplify(f(al[0], al[1])))

    def __lt__(self, o): return self._cmp(o, lambda a, b: a < b)
    def __le__(self, o): return self._cmp(o, lambda a, b: a <= b)
    def __gt__(self, o): return self._cmp(o, lambda a, b: a > b)
    def __ge__(self, o): return self._cmp(o, lambda a, b: a >= b)

    def __eq__(self, o):
        r = self._cmp(o, lambda a, b: a == b)
        return False if r is NotImplemented else r

    def __ne__(self, o):
        r = self._cmp(o, lambda a, b: a != b)
        return True if r is NotImplemented else r

    def __hash__(self):
        raise E.Unsupported('hash of symbolic Decimal')

    def __bool__(self):
        return bool(mkbool(z3.simplify(SymDecimal._lift(self.num, 0) != 0)))

    def __neg__(self):
        return SymDecimal(-self.num, self.scale)

    @property
    def term(self):
        return SymDecimal._lift(self.num, 0)

    def __pos__(self):
        return self

    def __abs__(self):
        n = SymDecimal._lift(self.num, 0)
        return SymDecimal(z3.If(n >= 0, n, -n), self.scale)

    def __add__(self, o):
        al = self._align(o)
        if al is None:
            return NotImplemented
        return SymDecimal(al[0] + al[1], al[2])
    __radd__ = __add__

    def __sub__(self, o):
        al = self._align(o)
        if al is None:
            return NotImplemented
        return SymDecimal(al[0] - al[1], al[2])

    def __rsub__(self, o):
        al = self._align(o)
        if al is None:
            return NotImplemented
        return SymDecimal(al[1] - al[0], al[2])

    def __mul__(self, o):
        o = SymDecimal.of(o)
        if o is None:
            return NotImplemented
        a, b = SymDecimal._lift(self.num, o.num), SymDecimal._lift(o.num, self.num)
        return SymDecimal(a * b, self.scale + o.scale)
    __rmul__ = __mul__

    @staticmethod
    def _truncdiv(a, b):
        """integer part of a / b truncated toward zero (what Decimal's // gives), a and b z3 Int or bit-vector terms"""
        if z3.is_bv(a) or z3.is_bv(b):
            return a / b                                    # bvsdiv truncates toward zero
        b = z3.simplify(b)
        if z3.is_int_value(b):
            # a numeral divisor keeps the query linear (a symbolic one would make z3 treat div as uninterpreted)
            bv = b.as_long()
            q = z3.If(a >= 0, a, -a) / z3.IntVal(abs(bv))
            return z3.If((a >= 0) == z3.BoolVal(bv >= 0), q, -q)
        raise E.Unsupported('Decimal division by a symbolic divisor')

    def _divide(self, o, swap=False):
        o2 = SymDecimal.of(o)
        if o2 is not None and (z3.is_bv(self.num) if not isinstance(self.num, int) else False or (not isinstance(o2.num, int) and z3.is_bv(o2.num))):
            # bit-vector integers (IEEE harnesses): aligning the scales of e.g. Decimal(0.2) (54 decimals) overflows 64 bits, so the
            # division is done on 256-bit sign-extended operands and the quotient truncated back (it fits: |q| <= |a| * 10**scale)
            W = 256
            s = max(self.scale, o2.scale)
            if 10 ** s >= 2 ** (W - 66):
                raise E.Unsupported('Decimal division at scale %d' % s)

            def wide(x, sc):
                if isinstance(x, int):
                    return z3.BitVecVal(x * 10 ** (s - sc), W)
                return z3.SignExt(W - x.size(), x) * z3.BitVecVal(10 ** (s - sc), W)
            a, b = wide(self.num, self.scale), wide(o2.num, o2.scale)
            if swap:
                a, b = b, a
            if bool(mkbool(z3.simplify(b == 0))):
                raise _d.DivisionByZero('division by zero')
            return ('wide', a, b, s)
        al = self._align(o)
        if al is None:
            return None
        a, b = (al[1], al[0]) if swap else (al[0], al[1])
        a, b = SymDecimal._lift(a, b), SymDecimal._lift(b, a)
        zero = mkbool(z3.simplify(b == 0))
        if bool(zero):
            raise _d.DivisionByZero('division by zero')
        return a, b

    def __floordiv__(self, o):
        ab = self._divide(o)
        if ab is None:
            return NotImplemented
        if ab[0] == 'wide':
            return SymDecimal(z3.Extract(63, 0, ab[1] / ab[2]), 0)
        return SymDecimal(SymDecimal._truncdiv(ab[0], ab[1]), 0)

    def __rfloordiv__(self, o):
        ab = self._divide(o, swap=True)
        if ab is None:
            return NotImplemented
        if ab[0] == 'wide':
            return SymDecimal(z3.Extract(63, 0, ab[1] / ab[2]), 0)
        return SymDecimal(SymDecimal._truncdiv(ab[0], ab[1]), 0)

    def __mod__(self, o):
        ab = self._divide(o)
        if ab is None:
            return NotImplemented
        if ab[0] == 'wide':
            raise E.Unsupported('Decimal % on bit-vector integers')
        al = self._align(o)
        q = SymDecimal._truncdiv(ab[0], ab[1])
        return SymDecimal(ab[0] - q * ab[1], al[2])             # the remainder has the sign of the dividend, as in decimal

    def _sx_float(self):
        """float(Decimal) is correctly rounded"""
        eng = E.cur()
        if isinstance(self.num, int):
            import decimal as _dd
            return float(_dd.Decimal(self.num).scaleb(-self.scale))
        if eng.float_mode == 'F':
            num = z3.fpSignedToFP(z3.RNE(), self.num if z3.is_bv(self.num) else z3.Int2BV(self.num, 64), z3.Float64())
            return SymFloat(z3.fpDiv(z3.RNE(), num, fpval(10.0 ** self.scale)) if self.scale else num)
        exact = z3.ToReal(self.num) / (10 ** self.scale) if self.scale else z3.ToReal(self.num)
        return SymFloat(floatmodel.rnd(exact))

    def _sx_int(self):
        n = SymDecimal._lift(self.num, 0)
        p = 10 ** self.scale
        if z3.is_bv(n):
            return SymInt(n / z3.BitVecVal(p, 64))      # bvsdiv truncates toward zero
        return SymInt(z3.If(n >= 0, n / p, -((-n) / p)))

    def __float__(self):
        raise E.Unsupported('float() of symbolic Decimal reached C code')

    def __repr__(self):
        return 'SymDecimal(%s e-%d)' % (self.num if isinstance(self.num, int) else z3.simplify(self.num), self.scale)

    def __str__(self):
        raise E.Unsupported('str of symbolic Decimal')


class _Meta(type):
    def __instancecheck__(cls, x):
        return isinstance(x, (_Real, SymDecimal))

    def __call__(cls, x='0', *a):
        if isinstance(x, SymDecimal):
            return x
        if isinstance(x, SymStr):
            sign, total, nfrac = parse_float_parts(x)
            return SymDecimal(total * sign if sign != 1 else total, nfrac)
        if isinstance(x, SymInt):
            return SymDecimal.of(x)
        if isinstance(x, SymFloat):
            raise E.Unsupported('Decimal(symbolic float)')
        return _Real(x, *a)


class Decimal(metaclass=_Meta):
    pass
