"""C03 - high jump: final placings follow the countback rule and the jump-off result.
One-step symbolic execution from regular-phase pre-states (harness/hj.py): after every accepted trial the best of every
athlete is the greatest height on the card, and whenever the post-state is won / finished / drawn / jump-off the places
of the real object equal the countback ranking computed from the cards alone; a finished competition has no tie for first."""
from vlib import pool
from harness import hc, hj_run


def run(chk, only=None):
    hc.load_athlib()
    import athlib.highjump  # noqa
    quick = chk.tier == 'quick'
    nmax, Hmax = (2, 3) if quick else (3, 3)
    jobs = [j for j in hj_run.jobs_one(hj_run.CLAUSES_C03, nmax, Hmax, 600 if quick else 3000) if j[4] not in ('add_jumper',)]
    jobs += hj_run.jobs_jumpoff(hj_run.CLAUSES_C03 + ['jumpoff-result'], nmax, Hmax, 600 if quick else 3000)
    if nmax < 3:
        jobs += hj_run.jobs_jumpoff_three(hj_run.CLAUSES_C03 + ['jumpoff-result'], 600)
    if only:
        jobs = [j for j in jobs if only in '%s %s' % (j[4], j[5]) or only in repr(j)]
    hj_run.common_evidence(chk, nmax, Hmax)
    chk.bounds['clauses'] = ('best == greatest height cleared on the card (every post-state); places == countback (greatest height, failures at it, failures up to it; ties share; '
                             'no clearance -> unplaced) whenever the post-state is won / finished / drawn / jumpoff; finished => at most one first place')
    chk.outside.append('the ranking produced *inside* a jump-off (survivor first, other participants ahead of non-participants): the jump-off phase is not in the pre-state family')
    print('C03: %d (shape, call) jobs' % len(jobs), flush=True)
    pool.run_jobs(chk, hj_run.worker, jobs, chunksize=2, progress=200)
    chk.extra['functions_loaded_through_hook'] = hc.functions_loaded()
