"""C18 - the JavaScript port computes the same answers as the Python reference.

Differential symbolic execution: the JavaScript sources under /repo/js/src are parsed by node's
acorn (jsrun/estree.js) and run by the jsrun interpreter on symrun values; their Python twins are
loaded by the symrun import hook.  Both implementations run on the SAME symbolic input in the SAME
engine path; the obligation of a path is  python result == javascript result  (or both refuse).
Doubles are reals with a monotone rounding function (the same term for the same operation in both
languages, so agreement of the operation sequences is decided syntactically by z3's simplifier and
any difference goes to the solver); every counterexample is replayed with the real node and the
plain python library before it is reported.  The duplicated tables are compared cell by cell.
"""
import os
import sys
import time

import z3

from vlib import core, pool
from vlib.pool import JobResult
from harness import hc
from harness.C06 import DurProxy, FracProxy, digits
from symrun import engine as E
from symrun.values import SymInt, SymFloat, SymBool, symint, symfloat_grid, realval
from symrun.strings import SymStr, symcell, _mk
from jsrun import interp as J

plain = hc.plain
JS_SRC = os.path.join(core.REPO, 'js', 'src')
_INTERP = None

PRELUDE = ('import sys, os\nos.environ["VERIF_REPO"] = %r\nsys.path.insert(0, %r)\n'
           'from jsrun.nodeclient import JS, JSError, JSEVAL, outcome, same\nimport athlib\n' % (core.REPO, core.VERIF))


def interp():
    global _INTERP
    if _INTERP is None:
        _INTERP = J.Interp(JS_SRC)
        for m in ('utils.js', 'tyrving_score.js', 'qkids_score.js'):
            _INTERP.load(m)
        # the JavaScript modules are evaluated again before every symbolic path (module-level state of the port must not leak between
        # paths, exactly as for the python side: symrun/state.py)
        from symrun import state
        state.EXTRA_RESET.append(_INTERP.reset_modules)
    return _INTERP


def js_func(mod, name):
    I = interp()
    f = I.get_member(I.load(mod), name)
    if not isinstance(f, (J.JSFunction, J.Native)):
        raise core.Inconclusive('%s does not export %s' % (mod, name))

    def call(*args):
        # resolved at call time: the modules are re-evaluated before every path
        return I.call(I.get_member(I.load(mod), name), J.UNDEF, list(args))
    return call


# ------------------------------------------------------------------ JavaScript views of the C06 duration proxies
class JSFrac(FracProxy):
    _js_number = True

    def _js_to_fixed(self, digits_):
        return self._sx_format_fixed(digits_, 0, False)

    def _js_str(self):
        raise E.Unsupported("'' + (seconds - whole seconds): shortest round-trip text of a double known only through its 8-decimal rendering")

    def _js_arith(self, op, a, b):
        raise E.Unsupported('arithmetic on the fractional-seconds proxy')

    def _js_truthy(self):
        return bool(SymBool(self.V != 0)) if not isinstance(self.V, int) else self.V != 0


class JSDur(DurProxy):
    _js_number = True

    def __sub__(self, o):
        if isinstance(o, SymInt) and o.term.eq(self.S.term):
            return JSFrac(self.V)
        raise E.Unsupported('duration proxy minus something that is not its integer part')

    def __trunc__(self):
        return self.S

    __floor__ = __trunc__

    def _js_arith(self, op, a, b):
        if op == '-' and a is self:
            return self.__sub__(b)
        raise E.Unsupported('arithmetic %s on the duration proxy' % op)


def _minmax_with_proxies(orig):
    def f(self, a, mx):
        if any(isinstance(x, FracProxy) for x in a):
            # the fraction proxy is a double in [0, 1): Math.max(frac, 0) is frac
            if mx and len(a) == 2 and isinstance(a[0], FracProxy) and a[1] == 0:
                return a[0]
            raise E.Unsupported('Math.min / Math.max on the fractional-seconds proxy')
        return orig(self, a, mx)
    return f


J.Interp._minmax = _minmax_with_proxies(J.Interp._minmax)


# ------------------------------------------------------------------ differential core
def run_side(fn):
    """('value', v) | ('refuses', text); NaN is JavaScript's arithmetic refusal"""
    try:
        v = fn()
    except Exception as e:
        return ('refuses', '%s: %s' % (type(e).__name__, str(e)[:60]))
    if isinstance(v, float) and v != v:
        return ('refuses', 'NaN')
    if v is J.UNDEF:
        return ('refuses', 'undefined')
    return ('value', v)


def eq_term(a, b):
    from symrun.strings import SymStr as S
    if isinstance(a, (str, S)) or isinstance(b, (str, S)):
        if not (isinstance(a, (str, S)) and isinstance(b, (str, S))):
            return z3.BoolVal(False)
        return hc.symstr_eq_term(a, b)
    if isinstance(a, (bool, SymBool)) or isinstance(b, (bool, SymBool)):
        if not (isinstance(a, (bool, SymBool)) and isinstance(b, (bool, SymBool))):
            return z3.BoolVal(False)
        ta = a.term if isinstance(a, SymBool) else z3.BoolVal(a)
        tb = b.term if isinstance(b, SymBool) else z3.BoolVal(b)
        return ta == tb
    num = (int, float, SymInt, SymFloat)
    if isinstance(a, num) and isinstance(b, num):
        r = (a == b)
        return r.term if isinstance(r, SymBool) else z3.BoolVal(bool(r))
    return z3.BoolVal(a is b)


def differential(R, ins, py_call, js_call, py_expr, js_expr):
    eng = E.cur()
    R.partial = {'inputs': ins}
    po = run_side(py_call)
    jo = run_side(js_call)
    if po[0] != jo[0]:
        raise hc.PathFail('same', 'python %s %s, javascript %s %s' % (po[0], po[1] if po[0] == 'refuses' else '', jo[0], jo[1] if jo[0] == 'refuses' else ''))
    obs = []
    if po[0] == 'value':
        eng.check(eq_term(po[1], jo[1]), 'same')
        obs = [(py_expr, po[1]), (js_expr, jo[1])]
    return {'inputs': ins, 'observe': obs}


def script_for(setup, py_expr, js_expr, label):
    return (PRELUDE + setup + '\npy = outcome(lambda: %s)\njs = outcome(lambda: %s)\n'
            'print(%r, INPUTS, "python:", py, "javascript (node):", js)\nsys.exit(0 if same(py, js) else 1)\n' % (py_expr, js_expr, label))


def runner(res, func, setup, py_expr, js_expr, label, names, **kw):
    sc = script_for(setup, py_expr, js_expr, label).replace('INPUTS', ', '.join('"%s =", repr(%s)' % (n, n) for n in names))
    R = hc.Runner(res, plain(), func, {'same': sc, 'unexpected-exception': 'import sys\nsys.exit(0)\n'}, **kw)
    R.witness_prelude = PRELUDE
    R.witness_setup = setup
    R.small_ints = True      # every integer of these harnesses (digit texts of at most 15 digits, marks, seconds) is far below 2**53
    return R


# ------------------------------------------------------------------ templates of performance texts
DEC = '.,'
SEP = ':;.'


def text_template(shape, tag='p'):
    """shape: D digit, P decimal point or comma, C colon / semicolon / stop; anything else literal"""
    cells = []
    for i, ch in enumerate(shape):
        if ch == 'D':
            cells.append(symcell('0123456789', '%s%d' % (tag, i)))
        elif ch == 'P':
            cells.append(symcell(DEC, '%s%d' % (tag, i)))
        elif ch == 'C':
            cells.append(symcell(SEP, '%s%d' % (tag, i)))
        else:
            cells.append(ch)
    return _mk(cells)


RACE_SHAPES_SHORT = ['D.DD', 'DDPDD', 'DDDPDD', 'DPD', 'DDPD', 'DD', 'DDD', 'D']
RACE_SHAPES_LONG = ['DCDDPDD', 'DCDDPD', 'DCDD', 'DDCDDPDD', 'DDDPDD', 'DDDPD', 'DDDD']
FIELD_SHAPES = ['DPDD', 'DDPDD', 'DPD', 'DDPD', 'D', 'DD']


# ------------------------------------------------------------------ scoring kernels
def perf_input(form, kmax):
    """-> (inputs dict, perf value, setup text for the replay, names)"""
    if form == 'grid':
        k = symint('k', 0, kmax)
        return {'k': k}, symfloat_grid(k, 100), 'k = {k}\nperf = k / 100\n', ['perf']
    if form == 'int':
        n = symint('n', 0, kmax // 100 + 1)
        return {'n': n}, n, 'n = {n}\nperf = n\n', ['perf']
    s = text_template(form)
    return {'perf': s}, s, 'perf = {perf}\n', ['perf']


def tyrving_job(res, g, age, ev, form, kmax, prime=None):
    ty = sys.modules['athlib.tyrving_score'].tyrving_score
    jsf = js_func('tyrving_score.js', 'tyrvingScore')
    label = 'tyrving(%r, %r, %r) form=%s' % (g, age, ev, form) + ('' if prime is None else ' after a call with %r in both languages' % (prime,))
    py_expr = 'athlib.tyrving_score(%r, %r, %r, perf)' % (g, age, ev)
    js_expr = "JS('tyrving_score.js', 'tyrvingScore', %r, %r, %r, perf)" % (g, age, ev)
    box = {}

    def body(R):
        ins, perf, setup, names = perf_input(form, kmax)
        box['setup'] = setup
        if prime is not None:
            # history clause: one earlier call for the same row in each language (a one-decimal, i.e. hand-timed, text): the ports
            # must still agree afterwards
            run_side(lambda: ty(g, age, ev, prime))
            run_side(lambda: jsf(g, age, ev, prime))
            out = differential(R, ins, lambda: ty(g, age, ev, perf), lambda: jsf(g, age, ev, perf), py_expr, js_expr)
            return dict(out, observe=[])    # (the long-lived witness process has another history: witnesses of these paths are not compared there)
        return differential(R, ins, lambda: ty(g, age, ev, perf), lambda: jsf(g, age, ev, perf), py_expr, js_expr)
    setup = perf_input_setup(form)
    if prime is not None:
        setup += 'outcome(lambda: %s)\noutcome(lambda: %s)\n' % (py_expr.replace('perf', repr(prime)), js_expr.replace('perf)', '%r)' % (prime,)))
    R = runner(res, 'tyrving_score / tyrvingScore', setup, py_expr, js_expr, label, ['perf'], max_paths=4000, deadline=time.time() + 900, r_axioms=('mono', 'err', 'int'))
    R.witness_setup = setup
    explore(R, res, body, label)
    res.extra['tyrving_jobs'] = 1


def perf_input_setup(form):
    return {'grid': 'k = {k}\nperf = k / 100\n', 'int': 'n = {n}\nperf = n\n'}.get(form, 'perf = {perf}\n')


def qkids_job(res, ct, ev, form, kmax):
    qk = sys.modules['athlib.qkids_score'].qkids_score
    jsf = js_func('qkids_score.js', 'qkidsScore')
    label = 'qkids(%r, %r) form=%s' % (ct, ev, form)
    py_expr = 'athlib.qkids_score(%r, %r, perf)' % (ct, ev)
    js_expr = "JS('qkids_score.js', 'qkidsScore', %r, %r, perf)" % (ct, ev)

    def body(R):
        ins, perf, setup, names = perf_input(form, kmax)
        return differential(R, ins, lambda: qk(ct, ev, perf), lambda: jsf(ct, ev, perf), py_expr, js_expr)
    setup = perf_input_setup(form)
    R = runner(res, 'qkids_score / qkidsScore', setup, py_expr, js_expr, label, ['perf'], max_paths=4000, deadline=time.time() + 900, r_axioms=('mono', 'err', 'int'))
    R.witness_setup = setup
    explore(R, res, body, label)
    res.extra['qkids_jobs'] = 1


def explore(R, res, body, label):
    try:
        R.explore(body, label)
    except E.Budget as e:
        res.inconclusive.append('%s: %s' % (label, e))
    except E.Unsupported as e:
        res.inconclusive.append('%s: unsupported: %s' % (label, e))


# ------------------------------------------------------------------ string utilities
def rup_job(res, ni, dot, nf, prec):
    utils = sys.modules['athlib.utils']
    jsf = js_func('utils.js', 'roundUpStrNum')
    label = 'round_up_str_num shape %d%s%d prec=%d' % (ni, '.' if dot else '', nf, prec)
    py_expr = 'athlib.round_up_str_num(s, %d)' % prec
    js_expr = "JS('utils.js', 'roundUpStrNum', s, %d)" % prec

    def body(R):
        s = _mk(digits(ni, 'i') + (['.'] if dot else []) + (digits(nf, 'f') if dot else []))
        return differential(R, {'s': s}, lambda: utils.round_up_str_num(s, prec), lambda: jsf(s, prec), py_expr, js_expr)
    R = runner(res, 'round_up_str_num / roundUpStrNum', 's = {s}\n', py_expr, js_expr, label, ['s'], max_paths=4000, deadline=time.time() + 600)
    explore(R, res, body, label)
    res.extra['rup_jobs'] = 1


def hand_job(res, n, alphabet):
    utils = sys.modules['athlib.utils']
    jsf = js_func('utils.js', 'isHandTiming')
    label = 'is_hand_timing on texts of length %d over %r' % (n, alphabet)
    py_expr = 'athlib.is_hand_timing(s)'
    js_expr = "JS('utils.js', 'isHandTiming', s)"

    def body(R):
        s = _mk([symcell(alphabet, 'c%d' % i) for i in range(n)])
        return differential(R, {'s': s}, lambda: utils.is_hand_timing(s), lambda: jsf(s), py_expr, js_expr)
    R = runner(res, 'is_hand_timing / isHandTiming', 's = {s}\n', py_expr, js_expr, label, ['s'], max_paths=20000, deadline=time.time() + 600)
    explore(R, res, body, label)
    res.extra['hand_jobs'] = 1


def hand_number_job(res):
    utils = sys.modules['athlib.utils']
    jsf = js_func('utils.js', 'isHandTiming')
    label = 'is_hand_timing on numbers'
    py_expr = 'athlib.is_hand_timing(k / 100)'
    js_expr = "JS('utils.js', 'isHandTiming', k / 100)"

    def body(R):
        k = symint('k', 0, 10 ** 6)
        v = symfloat_grid(k, 100)
        out = differential(R, {'k': k}, lambda: utils.is_hand_timing(v), lambda: jsf(v), py_expr, js_expr)
        n = symint('n', 0, 10 ** 4)
        po, jo = run_side(lambda: utils.is_hand_timing(n)), run_side(lambda: jsf(n))
        E.cur().check(eq_term(po[1], jo[1]) if po[0] == jo[0] == 'value' else z3.BoolVal(po[0] == jo[0]), 'same')
        return out
    R = runner(res, 'is_hand_timing / isHandTiming', 'k = {k}\n', py_expr, js_expr, label, ['k'], max_paths=100, deadline=time.time() + 300)
    explore(R, res, body, label)


def hms_job(res, shape, alphabet):
    utils = sys.modules['athlib.utils']
    jsf = js_func('utils.js', 'parseHms')
    label = 'parse_hms on %s' % (('template %s' % shape) if shape else 'texts over %r' % alphabet)
    py_expr = 'athlib.parse_hms(t)'
    js_expr = "JS('utils.js', 'parseHms', t)"

    def body(R):
        if isinstance(shape, str):
            t = text_template(shape.replace('C', ':').replace('S', ';'), 't')
        else:
            t = _mk([symcell(alphabet, 'c%d' % i) for i in range(shape)])
        return differential(R, {'t': t}, lambda: utils.parse_hms(t), lambda: jsf(t), py_expr, js_expr)
    R = runner(res, 'parse_hms / parseHms', 't = {t}\n', py_expr, js_expr, label, ['t'], max_paths=60000, deadline=time.time() + 1500, r_axioms=('mono', 'err', 'int'))
    explore(R, res, body, label)
    res.extra['hms_jobs'] = 1


def fmt_job(res, form, prec):
    utils = sys.modules['athlib.utils']
    jsf = js_func('utils.js', 'formatSecondsAsTime')
    label = 'format_seconds_as_time form=%s prec=%r' % (form, prec)
    if form == 'frac8':
        setup = 'S = {S}\nV = {V}\nseconds = S + V / 1e8\n'
        names = ['seconds']
    else:
        setup = 'seconds = {seconds}\n'
        names = ['seconds']
    py_expr = 'athlib.format_seconds_as_time(seconds, %r)' % (prec,)
    js_expr = "JS('utils.js', 'formatSecondsAsTime', seconds, %r)" % (prec,)

    def body(R):
        eng = E.cur()
        if form == 'frac8':
            S = symint('S', 0, 359999)
            V = z3.Int(eng.fresh_name('V'))
            eng.add(z3.And(V >= 0, V <= 10 ** 8 - 1))
            seconds = JSDur(S, V)
            ins = {'S': S, 'V': SymInt(V)}
        else:
            seconds = symint('k', 0, 359999)
            ins = {'seconds': seconds}
        return differential(R, ins, lambda: utils.format_seconds_as_time(seconds, prec), lambda: jsf(seconds, prec), py_expr, js_expr)
    R = runner(res, 'format_seconds_as_time / formatSecondsAsTime', setup, py_expr, js_expr, label, names, max_paths=20000, deadline=time.time() + 1500)
    explore(R, res, body, label)
    res.extra['fmt_jobs'] = 1


# ------------------------------------------------------------------ tables and keys (finite, exhaustive)
def js_to_py(v):
    if isinstance(v, J.JSArray):
        return [js_to_py(x) for x in v.items]
    if isinstance(v, J.JSObject):
        return {k: js_to_py(x) for k, x in v.props.items()}
    return v


def norm_table(x):
    """python table value with JSON-like keys (ages of a dict row become text, tuples lists)"""
    if isinstance(x, dict):
        return {str(k): norm_table(v) for k, v in x.items()}
    if isinstance(x, (list, tuple)):
        return [norm_table(v) for v in x]
    return x


def diff_tables(a, b, path=''):
    """differences between two JSON-like trees: (path, python value, javascript value)"""
    out = []
    if isinstance(a, dict) and isinstance(b, dict):
        for k in sorted(set(a) | set(b)):
            if k not in a:
                out.append((path + '[%r]' % k, '<absent>', '<present>'))
            elif k not in b:
                out.append((path + '[%r]' % k, '<present>', '<absent>'))
            else:
                out += diff_tables(a[k], b[k], path + '[%r]' % k)
    elif isinstance(a, list) and isinstance(b, list):
        if len(a) != len(b):
            out.append((path, 'length %d' % len(a), 'length %d' % len(b)))
        else:
            for i, (x, y) in enumerate(zip(a, b)):
                out += diff_tables(x, y, path + '[%d]' % i)
    else:
        same = (isinstance(a, (int, float)) and isinstance(b, (int, float)) and not isinstance(a, bool) and not isinstance(b, bool) and a == b) or (type(a) == type(b) and a == b)
        if not same:
            out.append((path, repr(a), repr(b)))
    return out


TABLE_SCRIPT = PRELUDE + '''import importlib, json
mod = importlib.import_module(PYMOD)
def norm(x):
    if isinstance(x, dict): return {str(k): norm(v) for k, v in x.items()}
    if isinstance(x, (list, tuple)): return [norm(v) for v in x]
    return x
py = norm(getattr(mod, PYNAME))
js = JSEVAL(JSMOD, JSNAME)
def get(t, path):
    for p in path:
        try: t = t[p]
        except (KeyError, IndexError, TypeError): return '<absent>'
    return t
a, b = get(py, PATH), get(js, PATH)
print(PYMOD + '.' + PYNAME, PATH, 'python:', a if not isinstance(a, (dict, list)) else '<present>', 'javascript (node):', b if not isinstance(b, (dict, list)) else '<present>')
sys.exit(0 if (a == b and type(a) in (int, float, str) ) or (isinstance(a, (dict, list)) and isinstance(b, (dict, list)) and len(a) == len(b)) else 1)
'''


def tables_and_keys(chk):
    athlib = hc._athlib
    I = interp()
    pairs = [('athlib.tyrving_score', '_tyrvingTables', 'tyrving_score.js', '_tyrvingTables'),
             ('athlib.qkids_score', '_qkidsTables', 'qkids_score.js', '_qkidsTables'),
             ('athlib.qkids_score', '_compTypeMap', 'qkids_score.js', '_compTypeMap')]
    import re as _re
    keys = set()
    cells = 0
    for pymod, pyname, jsmod, jsname in pairs:
        py = norm_table(getattr(sys.modules[pymod], pyname))
        scope = I.modules[os.path.normpath(os.path.join(JS_SRC, jsmod))]['scope']
        js = js_to_py(scope.vars[jsname])
        diffs = diff_tables(py, js)

        def count(x):
            return sum(count(v) for v in (x.values() if isinstance(x, dict) else x)) if isinstance(x, (dict, list)) else 1
        cells += count(py)
        chk.obligations += 1
        if not diffs:
            chk.discharged += 1
        for (path, a, b) in diffs[:40]:
            plist = [(int(p) if p.isdigit() and not q else (p or q)) for p, q in _re.findall(r"\[(?:(\d+)|'([^']*)')\]", path)]
            # list indices are ints, dict keys text
            plist = []
            for mm in _re.finditer(r"\[(\d+)\]|\['([^']*)'\]", path):
                plist.append(int(mm.group(1)) if mm.group(1) is not None else mm.group(2))
            script = TABLE_SCRIPT.replace('PYMOD', repr(pymod)).replace('PYNAME', repr(pyname)).replace('JSMOD', repr(jsmod)).replace('JSNAME', repr(jsname)).replace('PATH', repr(plist))
            code, out = plain().run_script(script)
            rec = {'label': 'table-cell', 'func': 'tables', 'kind': 'table-cell', 'args_text': '%s.%s%s' % (pymod, pyname, path),
                   'expected': 'the duplicated tables hold the same cell', 'observed': out.strip()[-300:], 'script': script, 'job': 'tables'}
            if code == 1:
                chk.report(rec)
            else:
                chk.inconclusive_note('table difference %s%s (%s vs %s) did not reproduce under node [exit %s] %s' % (pyname, path, a, b, code, out.strip()[-200:]))
        if pyname.endswith('Tables'):
            for t in py.values():
                keys |= set(t.keys())
            for t in js.values():
                keys |= set(t.keys())
    chk.extra['table_cells_compared'] = cells
    # event-code normalisation of every table key, both implementations, interpreted and under node
    norm_py = sys.modules['athlib.utils'].normalize_event_code
    jsf = js_func('utils.js', 'normalizeEventCode')
    for key in sorted(keys):
        chk.obligations += 1
        po, jo = run_side(lambda: norm_py(key)), run_side(lambda: jsf(key))
        ok = po[0] == jo[0] and (po[0] == 'refuses' or po[1] == jo[1])
        script = script_for('key = %r\n' % key, 'athlib.normalize_event_code(key)', "JS('utils.js', 'normalizeEventCode', key)", 'normalize_event_code').replace('INPUTS', '"key =", repr(key)')
        code, out = plain().run_script(script)
        if code == 0 and ok:
            chk.discharged += 1
            chk.witness_replays += 1
        elif code == 1:
            chk.report({'label': 'key-normalisation', 'func': 'normalize_event_code / normalizeEventCode', 'kind': 'key-normalisation', 'args_text': 'key=%r' % key,
                        'expected': 'both normalisers give the same code for a scoring-table key', 'observed': out.strip()[-300:], 'script': script, 'job': 'keys'})
        else:
            chk.inconclusive_note('key %r: interpreter says %s / %s but node replay exit %s: %s' % (key, po, jo, code, out.strip()[-200:]))
    chk.extra['table_keys_normalised_in_both'] = len(keys)


# ------------------------------------------------------------------ lemma used by the interpreter
def lemma_int_quotient(chk):
    """parseInt(a / 60) == floor(a / 60) in IEEE doubles for every integer 0 <= a < 2**32 (QF_BVFP, cvc5): lets the interpreter
    read  parseInt(secs / 60, 10)  as the integer quotient"""
    from symrun import cvc5_backend
    from symrun.values import fpval, RNE, F64
    for c in J.QUOTIENT_LEMMA_DIVISORS:
        a = z3.BitVec('a', 64)
        q = z3.fpToSBV(z3.RTZ(), z3.fpDiv(RNE, z3.fpSignedToFP(RNE, a, F64), fpval(float(c))), z3.BitVecSort(64))
        t = time.time()
        r, m = cvc5_backend.check([a >= 0, a < z3.BitVecVal(2 ** 32, 64), q != z3.UDiv(a, z3.BitVecVal(c, 64))], [], 600000)
        chk.count_query('cvc5-binary', time.time() - t)
        chk.obligations += 1
        if r == 'unsat':
            chk.discharged += 1
        else:
            chk.inconclusive_note('integer quotient lemma for divisor %d: %s' % (c, r))


# ------------------------------------------------------------------ jobs
def worker(job):
    res = JobResult()
    kind = job[0]
    interp()
    if kind == 'tyrving':
        tyrving_job(res, *job[1:])
    elif kind == 'qkids':
        qkids_job(res, *job[1:])
    elif kind == 'rup':
        rup_job(res, *job[1:])
    elif kind == 'hand':
        hand_job(res, *job[1:])
    elif kind == 'handnum':
        hand_number_job(res)
    elif kind == 'hms':
        hms_job(res, *job[1:])
    elif kind == 'fmt':
        fmt_job(res, *job[1:])
    res.extra['js_functions_interpreted'] = sorted(interp().functions_entered)
    return res


def build_jobs(quick, rng):
    from harness.C11 import tyrving_base
    jobs = []
    ty = sys.modules['athlib.tyrving_score']
    tyr = []
    for g, d in ty._tyrvingTables.items():
        for ev, (kind, args) in d.items():
            yvs = args[-1]
            yv0 = yvs[0] if kind in ('stav', 'throw', 'pv') else yvs
            ages = sorted(yv0) if isinstance(yv0, dict) else list(range(yv0[0], yv0[0] + len(yv0[1])))
            for age in ages:
                base = tyrving_base(yv0, age)
                if kind == 'race':
                    kmax = int(base * 100 * 2.5)
                    forms = ['grid', 'int'] + (RACE_SHAPES_LONG if base >= 60 else RACE_SHAPES_SHORT)
                else:
                    kmax = 12000
                    forms = ['grid', 'int'] + FIELD_SHAPES
                for form in forms:
                    tyr.append(('tyrving', g, age, ev, form, kmax))
    if quick:
        rng.shuffle(tyr)
        picked = []
        seen = set()
        for j in tyr:             # every event once (a rotating age and form), hand-timed sprint distances always with a one-decimal text
            if (j[1], j[3]) not in seen:
                seen.add((j[1], j[3]))
                picked.append(j)
        hand = [j for j in tyr if j[3] in ('40', '60', '80', '100', '200', '300', '400') and j[4] in ('DDPD', 'DPD', 'DD')]
        picked += hand[:24]
        jobs += picked
    else:
        jobs += tyr
    hist = [j for j in tyr if j[3] in ('40', '60', '80', '100', '200', '300', '400') and j[4] == 'grid']
    seen = set()
    for j in hist:
        if (j[1], j[3]) in seen or (quick and len(seen) >= 6):
            continue
        seen.add((j[1], j[3]))
        jobs.append(j + ('%d.%d' % (j[5] // 250, 3),))
    qk = sys.modules['athlib.qkids_score']
    codes = sys.modules['athlib.codes']
    qj = []
    for ct, d in qk._qkidsTables.items():
        for ev, row in d.items():
            run = codes.PAT_RUN._real.match(ev) is not None
            kmax = int(max(row[1], row[2]) * 100 * 2) + 500
            forms = ['grid', 'int'] + ((RACE_SHAPES_LONG if row[1] >= 60 else RACE_SHAPES_SHORT) if run else FIELD_SHAPES)
            for form in forms:
                qj.append(('qkids', ct, ev, form, kmax))
    for name in sorted(qk._compTypeMap)[:2]:
        qj.append(('qkids', name, sorted(qk._qkidsTables[qk._compTypeMap[name]])[0], 'grid', 3000))
    if quick:
        rng.shuffle(qj)
        seen = set()
        keep = []
        for j in qj:
            if (j[1], j[2]) not in seen:
                seen.add((j[1], j[2]))
                keep.append(j)
        qj = keep + qj[:10]
    jobs += qj
    for ni in range(0, 4):
        for dot, nf in [(False, 0)] + [(True, n) for n in range(0, 8)]:
            if ni == 0 and nf == 0:
                continue
            for prec in range(0, 5):
                if quick and (ni + nf + prec) % 3 and not (ni == 0 or nf <= 1):
                    continue
                jobs.append(('rup', ni, dot, nf, prec))
    for n in range(0, 6 if quick else 7):
        jobs.append(('hand', n, '0123456789.,:'))
    jobs.append(('handnum',))
    for shape in ['D', 'DD.D', 'DDD.DD', 'D:DD', 'DD:DD.D', 'DD:DD.DD', 'D:DD:DD', 'D:DD:DD.DD', 'DDSDD.D', 'DSDDSDD', 'DDD:D.DDD', 'D.:D', 'DD:']:
        jobs.append(('hms', shape, None))
    for n in range(1, 5 if quick else 6):
        jobs.append(('hms', n, '0123456789.:;'))
    for prec in (0, 1, 2, 3):
        jobs.append(('fmt', 'int', prec))
        jobs.append(('fmt', 'frac8', prec))
    for prec in (4, -1):
        jobs.append(('fmt', 'int', prec))
    return jobs


def run(chk, only=None):
    import random
    hc.load_athlib()
    quick = chk.tier == 'quick'
    rng = random.Random(chk.seed)
    interp()
    jobs = build_jobs(quick, rng)
    if only:
        jobs = [j for j in jobs if only in repr(j)]
    chk.functions = ['js/src/utils.js: roundUpStrNum, formatSecondsAsTime, parseHms, str2num, isHandTiming, normalizeEventCode (+ regexCaptures, _norm*, pad) - interpreted from the ESTree',
                     'js/src/tyrving_score.js: tyrvingScore, TyrvingCalculator.{points, racePoints, jumpPoints, stavPoints, getBasePerf}; js/src/qkids_score.js: qkidsScore',
                     'athlib.utils.round_up_str_num / format_seconds_as_time / parse_hms / str2num / is_hand_timing / normalize_event_code; athlib.tyrving_score; athlib.qkids_score (through the symrun hook)']
    chk.stubs = ['doubles as reals with a monotone rounding function R (same operation -> same term in both languages); every counterexample replayed under node and plain python',
                 "parseInt(number): trunc for 1e-6 <= |x| < 1e21 and 0; a smaller non-zero magnitude gives an arbitrary leading digit 1..9 (over-approximation, decided by the replay)",
                 'parseInt(a / 60) read as the integer quotient (QF_BVFP lemma for 0 <= a < 2**32, discharged by cvc5 in this run)',
                 "'%.8f' % frac and frac.toFixed(8) by the correctly-rounded fixed-point contract of C06 (exact ties of the binary value at the 9th decimal are outside the claim)",
                 'integers are exactly representable: every integer quantity in these harnesses is below 2**53 (texts of at most 15 digits, marks below 1e6, durations below 360000 s)',
                 'NaN returned by JavaScript counts as a refusal (python raises where JavaScript arithmetic yields NaN)',
                 'JavaScript regular expressions on concrete event codes run through python re after a syntactic translation (ASCII \\d \\s, $ as end of input)']
    chk.bounds = {'tyrving / qkids': 'every table row and age (quick: every event once with a rotating age / form, plus one-decimal texts for the hand-timed sprint distances); marks k/100 for 0 <= k <= 2.5 x base, whole numbers, '
                  'and digit texts of the listed shapes with . or , as decimal mark and : ; . between minutes and seconds',
                  'text shapes': {'short races': RACE_SHAPES_SHORT, 'long races': RACE_SHAPES_LONG, 'field': FIELD_SHAPES},
                  'round_up_str_num': 'integer part 0-3 digits x fraction 0-7 digits x prec 0-4, every digit symbolic',
                  'is_hand_timing': 'every text of length 0..%d over 0-9 . , :  and numbers' % (5 if quick else 6),
                  'parse_hms': 'digit templates with : and ; and every text of length 1..%d over 0-9 . : ;' % (4 if quick else 5),
                  'format_seconds_as_time': 'whole seconds 0..359999 and S + V/1e8 (0 <= V < 1e8), prec 0-3, refusal for prec 4 and -1',
                  'jobs': len(jobs)}
    chk.outside = ['pattern-language equality of patterns.js and codes.py (not part of the property: only table keys are normalised)', 'texts with signs, blanks, exponents, hexadecimal prefixes or non-ASCII digits',
                   'marks of 1e21 and beyond; durations of 100 h and more', 'which error class / message is raised', 'libm / V8 differences (none of the ported functions calls pow)']
    print('C18: %d jobs' % len(jobs), flush=True)
    if not only:
        tables_and_keys(chk)
        lemma_int_quotient(chk)
    pool.run_jobs(chk, worker, jobs, chunksize=1, progress=50)
    chk.extra['functions_loaded_through_hook'] = hc.functions_loaded()
