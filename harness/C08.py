"""C08 - high jump: replaying the log or the card, in any jumping order, rebuilds it.
Compositional, from regular-phase symbolic pre-states (harness/hj.py):
  diamond     - for two different athletes and any two trial kinds, the two orders are accepted alike and end in the same
                cards, state, bests and places (so, by induction on adjacent transpositions, every interleaving that keeps
                each athlete's own sequence - the round-robin order of from_matrix included - gives the same result);
  log         - an accepted call appends exactly itself to the action log, a refused one nothing (with determinism of the
                code this makes from_actions(actions) rebuild the same object);
  card/state  - every path's witness state is rebuilt from its card alone through the public API and compared field by field
                (the card determines the state).
to_matrix / from_matrix round trips run on the concretised witnesses only."""
from vlib import pool
from harness import hc, hj_run


def run(chk, only=None):
    hc.load_athlib()
    import athlib.highjump  # noqa
    quick = chk.tier == 'quick'
    nmax, Hmax = (2, 2) if quick else (3, 3)
    budget = 600 if quick else 3000
    jobs = hj_run.jobs_commute(nmax, Hmax, budget)
    jobs += [j for j in hj_run.jobs_one(['log'], nmax, Hmax, budget)]
    if quick:
        jobs += hj_run.jobs_commute_three(budget)
    jobs += hj_run.jobs_tieorder(nmax, Hmax, budget)
    if only:
        jobs = [j for j in jobs if only in repr(j)]
    hj_run.common_evidence(chk, nmax, Hmax)
    chk.bounds['clauses'] = 'diamond for every pair of athletes x 4 x 4 trial kinds; log append; card determines state (witness rebuild)'
    chk.outside.append('to_matrix / from_matrix themselves (exercised on the concretised witnesses only); explicit pass marks are dropped by bib_trial by design')
    print('C08: %d jobs' % len(jobs), flush=True)
    pool.run_jobs(chk, hj_run.worker, jobs, chunksize=2, progress=200)
    chk.extra['functions_loaded_through_hook'] = hc.functions_loaded()
