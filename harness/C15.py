"""C15 - WMA interpolation between distances is order-preserving.

For every pair of neighbouring running rows of a table (a segment) the distance d
is a symbolic integer strictly inside the segment; the event code is the decimal
rendering of d as a digit-cell string (bare number) or of d/1000 followed by K.
The real calculate_factor fallback (find_row_by_distance, recursive factors,
interpolation) and world_best fallback run on it in the reals-with-rounding
float model; the quotient distance / speed is an uninterpreted function whose
comparison with the bracketing bests is linear (cross-multiplied facts).
Obligations: factor between the two bracketing factors; best time between the
two bracketing bests and not decreasing from d to d+1; beyond either end of the
table the end row's factor, and a best that is defined and on the right side.
"""
import sys
import time

import z3

from vlib import core, pool
from vlib.pool import JobResult
from harness import hc
from symrun import engine as E, floatmodel
from symrun.values import SymInt, SymFloat, symint, realval
from symrun.strings import SymStr, _mk
from symrun.shadow import render_int

plain = hc.plain
TOL = z3.RealVal('1/1000000000000')     # 1e-12 relative: a 1-ulp excursion of (1-f)a + fb is not an alarm

_PRE = ('import sys, athlib\nyear = YEAR\nage = AGE\ng = G\nd = {d}\nform = FORM\n'
        'ag = athlib.ag2015 if year == 2015 else athlib.ag2023\n'
        "MULT = dict(bare=1, K=1000, K1=100, K2=10, M=1609)\n"
        "def spell(d):\n    return str(d) if form == 'bare' else '%dK' % (d // 1000) if form == 'K' else '%d.%dK' % (d // 1000, (d % 1000) // 100) if form == 'K1' else '%d.%02dK' % (d // 1000, (d % 1000) // 10) if form == 'K2' else '%dM' % (d // 1609)\n"
        "code = spell(d)\n"
        'lo, hi = LO, HI\n'
        'def three(c):\n    return ag.calculate_factor(g, age, c), ag.world_best(g, c)\n'
        'HISTORY')
SCRIPTS_T = {
    'raises': _PRE + "try:\n    r = three(code); bad = False\nexcept Exception as e:\n    r = repr(e); bad = True\nprint(year, g, 'age', age, repr(code), '->', r)\nsys.exit(1 if bad else 0)\n",
    'factor-between': _PRE + ("f, b = three(code)\nfs, fl = (ag.calculate_factor(g, age, lo), ag.calculate_factor(g, age, hi)) if lo and hi else (None, None)\n"
                              "if lo and hi: ok = min(fs, fl) * (1 - 1e-12) <= f <= max(fs, fl) * (1 + 1e-12)\n"
                              "else: ok = f == ag.calculate_factor(g, age, lo or hi)\n"
                              "print(year, g, 'age', age, repr(code), 'factor', f, 'neighbours', lo, fs, hi, fl)\nsys.exit(0 if ok else 1)\n"),
    'best-between': _PRE + ("f, b = three(code)\nbs = ag.world_best(g, lo) if lo else None\nbl = ag.world_best(g, hi) if hi else None\n"
                            "if lo and hi: ok = min(bs, bl) * (1 - 1e-12) <= b <= max(bs, bl) * (1 + 1e-12)\n"
                            "elif hi: ok = 0 < b <= bl * (1 + 1e-12)\nelse: ok = b >= bs * (1 - 1e-12)\n"
                            "print(year, g, repr(code), 'best', b, 'neighbours', lo, bs, hi, bl)\nsys.exit(0 if ok else 1)\n"),
    'best-increasing': _PRE + ("step = MULT[form]\ncode2 = spell(d + step)\n"
                               "b1 = ag.world_best(g, code); b2 = ag.world_best(g, code2)\nprint(year, g, repr(code), b1, repr(code2), b2)\nsys.exit(0 if b2 >= b1 * (1 - 1e-12) else 1)\n"),
    'unexpected-exception': 'import sys\nsys.exit(0)\n',
}


def grader(year):
    athlib = hc._athlib
    return athlib.ag2015 if year == 2015 else athlib.ag2023


def scripts(year, g, age, form, lo, hi, far=None):
    hist = '' if far is None else ('# earlier questions to the same grader object: a distance of this segment, then a far-away tabulated event\n'
                                   'for c_ in %r:\n    try:\n        three(c_)\n    except Exception:\n        pass\n' % (far,))
    return {k: v.replace('HISTORY', hist).replace('YEAR', repr(year)).replace('AGE', repr(age)).replace('FORM', repr(form)).replace('LO, HI', '%r, %r' % (lo, hi)).replace('g = G', 'g = %r' % g)
            for k, v in SCRIPTS_T.items()}


MULT = {'bare': 1, 'K': 1000, 'K1': 100, 'K2': 10, 'M': 1609}


def code_of(v, form):
    """the spelling of the distance MULT[form] * v: bare metres, whole kilometres N K, tenths of a kilometre N.d K, whole miles N M"""
    cells = list(SymStr.lift(render_int(v)).cells)
    if form == 'bare':
        return _mk(cells)
    if form == 'K':
        return _mk(cells + ['K'])
    if form == 'K1':
        return _mk(cells[:-1] + ['.'] + cells[-1:] + ['K'])
    if form == 'K2':
        return _mk(cells[:-2] + ['.'] + cells[-2:] + ['K'])
    return _mk(cells + ['M'])


def vrange(form, dlo, dhi):
    """values v such that MULT * v and MULT * (v + 1) both lie inside the segment; for the decimal / mile spellings int(1000 * qty) may come
    out one metre short in doubles, so the start of the segment is kept two metres away.  None when there is no such v"""
    mult = MULT[form]
    lo_v = -(-(dlo + (0 if form == 'bare' else 2)) // mult)
    hi_v = dhi // mult - 1
    if form == 'K1':
        lo_v = max(lo_v, 10)
    if form == 'K2':
        lo_v = max(lo_v, 100)
    return (lo_v, hi_v) if lo_v <= hi_v else None


def body_segment(year, g, age, form, dlo, dhi, lo_code, hi_code, far=None):
    def body(R):
        eng = E.cur()
        ag = grader(year)
        mult = MULT[form]
        lo_v, hi_v = vrange(form, dlo, dhi)
        v = symint('v', lo_v, hi_v)
        d = v * mult
        ins = {'d': d}
        R.partial = {'inputs': ins}
        if far is not None:
            # history clause: the same grader object was asked about one concrete distance of this segment, then about a far-away
            # tabulated event, before the questions of the clauses (scratch attributes such as _fx / _fx1 / _pfac or a remembered position must not leak)
            for c_ in far:
                try:
                    ag.calculate_factor(g, age, c_)
                    ag.world_best(g, c_)
                except Exception:
                    pass
        fs = ag.calculate_factor(g, age, lo_code) if lo_code else None
        fl = ag.calculate_factor(g, age, hi_code) if hi_code else None
        bs = ag.world_best(g, lo_code) if lo_code else None
        bl = ag.world_best(g, hi_code) if hi_code else None
        consts = [x for x in (bs, bl) if x is not None]
        eng.div_consts = [realval(float(x)) * (1 - TOL) for x in consts] + [realval(float(x)) * (1 + TOL) for x in consts]
        code = code_of(v, form)
        code2 = code_of(v + 1, form)
        try:
            eng.r_copy = 1
            f = ag.calculate_factor(g, age, code)
            b = ag.world_best(g, code)
            eng.r_copy = 2
            b2 = ag.world_best(g, code2)
            eng.r_copy = 0
        except Exception as e:
            raise hc.PathFail('raises', '%s: %s' % (type(e).__name__, str(e)[:80]))
        ft = f.term if isinstance(f, SymFloat) else realval(f)
        bt = b.term if isinstance(b, SymFloat) else realval(b)
        b2t = b2.term if isinstance(b2, SymFloat) else realval(b2)
        if lo_code and hi_code:
            mn, mx = realval(min(fs, fl)), realval(max(fs, fl))
            eng.check(z3.And(ft >= mn * (1 - TOL), ft <= mx * (1 + TOL)), 'factor-between')
            bmn, bmx = realval(float(min(bs, bl))), realval(float(max(bs, bl)))
            eng.check(z3.And(bt >= bmn * (1 - TOL), bt <= bmx * (1 + TOL)), 'best-between')
            # speeds of the two bracketing bests: when the shorter event's best is the slower one (mile-track rows next to metric rows)
            # the quotient facts cannot order d/v(d) and the clause is not asserted for that segment (listed in the evidence)
            if float(bs) * dhi_over_dlo_guard(ag, g, lo_code, hi_code):
                eng.check(b2t >= bt * (1 - TOL), 'best-increasing')
        elif hi_code:          # shorter than every tabulated run: the first row
            eng.check(ft == realval(fl), 'factor-between')
            eng.check(z3.And(bt > 0, bt <= realval(float(bl)) * (1 + TOL)), 'best-between')
        else:                  # longer than every tabulated run: the last row
            eng.check(ft == realval(fs), 'factor-between')
            eng.check(bt >= realval(float(bs)) * (1 - TOL), 'best-between')
            eng.check(b2t >= bt * (1 - TOL), 'best-increasing')
        return {'inputs': ins, 'observe': []}
    return body


def speeds_ordered(ag, g, lo_code, hi_code):
    """True when the shorter bracketing event has the faster best (speed not increasing with distance)"""
    table = ag.get_data()[g]
    rows = {r[0]: r for r in table}
    a, b = rows[lo_code], rows[hi_code]
    return a[1] / a[2] >= b[1] / b[2]


def dhi_over_dlo_guard(ag, g, lo_code, hi_code):
    return 1 if speeds_ordered(ag, g, lo_code, hi_code) else 0


def worker(job):
    year, g, age, form, dlo, dhi, lo_code, hi_code = job[:8]
    far = job[8] if len(job) > 8 else None
    res = JobResult()
    R = hc.Runner(res, plain(), 'athlib.wma.agegrader.AgeGrader', scripts(year, g, age, form, lo_code, hi_code, far), max_paths=50000, deadline=time.time() + 1200,
                  r_axioms=('mono', 'paired', 'err'))
    label = '%s %s age %s %s %s..%s%s (%s - %s)' % (year, g, age, form, dlo, dhi, '' if far is None else ' after %s and %s' % far, lo_code, hi_code)
    try:
        R.explore(body_segment(year, g, age, form, dlo, dhi, lo_code, hi_code, far), label)
    except E.Budget as e:
        res.inconclusive.append('%s: %s' % (label, e))
    res.extra['segments'] = 1
    return res


def row_distance_facts(chk):
    """finite fact about the data, exhaustive over both tables: the distance cell of every running row (kilometres, what the row search
    uses) agrees with the distance of its own event code as get_distance estimates it (what the interpolation uses) to 0.1 % - the
    nominal 1609 m mile against 1609.344 is 0.02 % (the rows are not sorted by distance - track rows precede road rows - so
    no order is demanded).  The symbolic segments
    are read from these cells, so a mistyped cell would otherwise move a segment boundary unnoticed."""
    script = r'''
import sys, athlib
bad = []
for year, ag in ((2015, athlib.ag2015), (2023, athlib.ag2023)):
    data = ag.get_data()
    for g in 'mf':
        table = data[g]
        i0 = [r[0] for r in table].index('50')
        for r in table[i0:]:
            code, km = r[0], r[1]
            if not isinstance(km, (int, float)) or km <= 0:
                bad.append('%s %s %s: distance cell %r' % (year, g, code, km)); continue
            try:
                d = athlib.get_distance(code[:-1] if code.endswith('MT') else code)
            except Exception as e:
                d = None
            if d and abs(1000.0 * km - d) > 0.001 * d + 1:
                bad.append('%s %s %s: distance cell %r km but the code stands for %s m' % (year, g, code, km, d))
print('\n'.join(bad))
sys.exit(1 if bad else 0)
'''
    code, out = plain().run_script(script)
    chk.obligations += 1
    if code == 0:
        chk.discharged += 1
        chk.trivial += 1
    elif code == 1:
        for l in [l for l in out.strip().splitlines() if l.strip()][:20]:
            one = script.replace("print('\\n'.join(bad))", "bad = [b for b in bad if b == %r]\nprint('\\n'.join(bad))" % l)
            chk.report({'label': 'row-distance', 'func': 'wma single-event tables', 'kind': 'row-distance', 'args_text': l,
                        'expected': 'the distance cell of a running row is the distance of its event code', 'observed': l, 'script': one})
    else:
        chk.inconclusive_note('row distance facts script failed: %s' % out[-300:])


def run(chk, only=None):
    athlib = hc.load_athlib()
    quick = chk.tier == 'quick'
    jobs = []
    for year in (2015, 2023):
        ag = grader(year)
        data = ag.get_data()
        for g in 'mf':
            table = data[g]
            i0 = [r[0] for r in table].index('50')
            runs = table[i0:]
            ages = [47] if quick else [23, 47, 66.5, 91]
            for age in ages:
                for form in ('bare', 'K', 'K1', 'K2', 'M'):
                    # below the first row
                    first_m = int(round(runs[0][1] * 1000))
                    if form == 'bare':
                        jobs.append((year, g, age, form, 20, first_m - 1, None, runs[0][0]))
                    prev = runs[0]
                    for r in runs[1:]:
                        a, b = int(round(prev[1] * 1000)), int(round(r[1] * 1000))
                        if b - a >= 3 and vrange(form, a + 1, b) is not None:
                            jobs.append((year, g, age, form, a + 1, b, prev[0], r[0]))
                        if r[1] > prev[1]:
                            prev = r
                    last_m = int(round(runs[-1][1] * 1000))
                    jobs.append((year, g, age, form, last_m + 1, 400000, prev[0], None))
            # distances below the first run once more at a child's age: the row before the first run is a field event whose factors
            # start later than the sprints' (calculate_factor raised TypeError there until 7347373)
            first_m = int(round(runs[0][1] * 1000))
            jobs.append((year, g, 8, 'bare', 20, first_m - 1, None, runs[0][0]))
    if quick:
        # quick tier: the 2023 table, every bare-number segment and every third segment of each other spelling
        kj = [j for j in jobs if j[0] == 2023 and j[3] == 'K']
        k1 = [j for j in jobs if j[0] == 2023 and j[3] == 'K1']
        mj = [j for j in jobs if j[0] == 2023 and j[3] == 'M']
        k2 = [j for j in jobs if j[0] == 2023 and j[3] == 'K2']
        jobs = [j for j in jobs if j[0] == 2023 and j[3] == 'bare'] + kj[::3] + k1[1::3] + mj[2::3] + k2[::4]
    # history variants: every fourth bare-number segment (thorough: every bare-number segment) once more after two earlier questions
    bare = [j for j in jobs if j[3] == 'bare' and j[6] and j[7]]
    for j in (bare[::4] if quick else bare):
        jobs.append(j + ((str((j[4] + j[5]) // 2), 'MAR' if j[5] < 5000 else '100'),))
    inverted = sorted({'%s %s %s-%s' % (j[0], j[1], j[6], j[7]) for j in jobs if j[6] and j[7] and not speeds_ordered(grader(j[0]), j[1], j[6], j[7])})
    chk.extra['segments_with_inverted_speeds_best_increasing_not_asserted'] = inverted
    if only:
        jobs = [j for j in jobs if only in repr(j)]
    chk.functions = ['athlib.wma.agegrader.AgeGrader.calculate_factor (fallback branch) / find_row_by_event / find_row_by_distance / world_best (fallback) / find_age',
                     'athlib.utils.get_distance (bare numbers and N K codes on digit cells)']
    chk.stubs = ['doubles as reals with monotone rounding (error bound 2**-53); distance / speed as an uninterpreted quotient with cross-multiplied comparison facts for the bracketing bests',
                 'event code = decimal digit cells of the symbolic distance (forks on the number of digits); segment = two neighbouring running rows with different distances, read from the live table',
                 'tolerance 1e-12 relative on every betweenness / order clause']
    chk.bounds = {'distance': 'every whole metre 20 m .. 400 km (bare numbers); every whole kilometre (N K), every tenth (N.d K) and hundredth (N.dd K) of a kilometre from 1 km and every whole mile (N M) inside a segment', 'ages': [47] if quick else [23, 47, 66.5, 91],
                  'tables': [2023] if quick else [2015, 2023], 'segments': len(jobs)}
    chk.outside = ['N.dM / N.ddM (decimal miles) and three-decimal kilometre road spellings', 'ages other than the listed ones (the age axis is C14)',
                   'strict increase of the best time (only "not decreasing from d to d+1" is proved)']
    if not only:
        row_distance_facts(chk)
    print('C15: %d segment jobs' % len(jobs), flush=True)
    pool.run_jobs(chk, worker, jobs, chunksize=1, progress=50)
    chk.extra['functions_loaded_through_hook'] = hc.functions_loaded()
