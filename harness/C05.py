"""C05 - a better performance never scores fewer points, in any scoring system.

For every table row of every scoring system the real scoring function runs twice
in one symbolic path, on the adjacent grid marks k and k+1 (k a z3 integer over
and beyond the tabulated range).  Floats are in the reals-with-monotone-rounding
model (every operation R(exact), pow / square as monotone uninterpreted
functions), which is sound for order statements about doubles.  Obligations:
points(better) >= points(worse), points integral and inside the system's bounds,
Tyrving hand-timed <= electronically timed.  Order over arbitrary pairs follows
by transitivity of the adjacent-pair statement.
"""
import sys
import time
import json

import z3

from vlib import core, pool
from vlib.pool import JobResult
from harness import hc
from symrun import engine as E
from symrun.values import SymInt, SymFloat, symint, realval, mkbool
from symrun.strings import SymStr, symcell, Cell, _mk
from symrun import floatmodel
from symrun.shims.decimal_shim import SymDecimal

plain = hc.plain

SCRIPT = '''import sys, athlib, decimal
k = {k}
def call(perf):
    return CALL
def mark(k):
    return MARK
a, b = call(mark(k)), call(mark(k + 1))
ok = isinstance(a, int) and isinstance(b, int) and not isinstance(a, bool) and ORDER and BOUNDS
print(LABEL, 'marks', mark(k), mark(k + 1), '->', a, b)
sys.exit(0 if ok else 1)
'''
SCRIPT_MANUAL = '''import sys, athlib
k = {k}
def call(perf):
    return CALL
hand = '%d.%d' % (k // 10, k % 10)
auto = hand + '0'
a, b = call(hand), call(auto)
print(LABEL, 'hand-timed', hand, '->', a, '; electronic', auto, '->', b)
sys.exit(0 if a <= b and a >= 0 and b >= 0 and isinstance(a, int) and isinstance(b, int) else 1)
'''


SCRIPT_HISTORY = '''import sys, athlib, decimal
k = {k}
o = {o}
h = {h}
def call(perf):
    return CALL
def prime(h):
    return PRIME
def mark(k):
    return MARK
first, second = (k, k + 1) if o == 0 else (k + 1, k)
x = call(mark(first))
try:
    prime(h)
except Exception:
    pass
y = call(mark(second))
a, b = (x, y) if o == 0 else (y, x)
ok = isinstance(a, int) and isinstance(b, int) and ORDER
print(LABEL, 'marks', mark(k), mark(k + 1), '->', a, b, '(the mark', mark(second), 'scored after another call for the same row with h =', repr(h), ')')
sys.exit(0 if ok else 1)
'''


def grid(k, denom):
    return SymFloat(floatmodel.rnd(z3.ToReal(k.term) / denom))


def term_of(p):
    if isinstance(p, SymInt):
        return p.term
    if isinstance(p, bool) or not isinstance(p, int):
        raise hc.PathFail('mono', 'result is not an integer: %r' % (p,))
    return z3.IntVal(p)


def make_job_scripts(call_src, mark_src, better, lo, hi, label, prime_src=None):
    order = 'b >= a' if better == 'high' else 'a >= b'
    bounds = '%s <= a <= %s and %s <= b <= %s' % (lo, hi if hi is not None else 10 ** 9, lo, hi if hi is not None else 10 ** 9)
    s = SCRIPT.replace('CALL', call_src).replace('MARK', mark_src).replace('ORDER', order).replace('BOUNDS', bounds).replace('LABEL', repr(label))
    return {'mono': s, 'bounds': s, 'raises': s.replace('a, b = call(mark(k)), call(mark(k + 1))',
            'try:\n    a, b = call(mark(k)), call(mark(k + 1))\nexcept Exception as e:\n    print(%r, "raised", repr(e)); sys.exit(1)' % label),
            'unexpected-exception': 'import sys\nsys.exit(0)\n',
            'manual': SCRIPT_MANUAL.replace('CALL', call_src).replace('LABEL', repr(label)),
            'mono-history': SCRIPT_HISTORY.replace('CALL', call_src).replace('PRIME', prime_src or call_src).replace('MARK', mark_src).replace('ORDER', order).replace('LABEL', repr(label))}


def body_mono(callf, markf, kmin, kmax, better, lo, hi):
    def body(R):
        eng = E.cur()
        k = symint('k', kmin, kmax - 1)
        R.partial = {'inputs': {'k': k}}
        try:
            eng.r_copy = 1
            p1 = callf(markf(k))
            eng.r_copy = 2
            p2 = callf(markf(k + 1))
            eng.r_copy = 0
        except hc.PathFail:
            raise
        except Exception as e:
            raise hc.PathFail('raises', '%s: %s' % (type(e).__name__, str(e)[:80]))
        t1, t2 = term_of(p1), term_of(p2)
        eng.check(t2 >= t1 if better == 'high' else t1 >= t2, 'mono')
        b = [t1 >= lo, t2 >= lo]
        if hi is not None:
            b += [t1 <= hi, t2 <= hi]
        eng.check(z3.And(b), 'bounds')
        return {'inputs': {'k': k}, 'observe': []}
    return body


def body_history(callf, markf, kmin, kmax, better, primef):
    """order between two adjacent marks must also hold when another call for the same row happens between the two scorings (a calculator
    object kept per event, a coefficient row edited in place ...): one mark is scored, primef(R) makes the other call, the other mark is
    scored; both orders"""
    def body(R):
        eng = E.cur()
        k = symint('k', kmin, kmax - 1)
        o = eng.choose(2, 'order')
        ins = {'k': k, 'o': o, 'h': None}
        R.partial = {'inputs': ins}
        try:
            eng.r_copy = 1 if o == 0 else 2
            x = callf(markf(k if o == 0 else k + 1))
            eng.r_copy = 0
            ins['h'] = primef(R, k)
            eng.r_copy = 2 if o == 0 else 1
            y = callf(markf(k + 1 if o == 0 else k))
            eng.r_copy = 0
        except hc.PathFail:
            raise
        except Exception as e:
            raise hc.PathFail('raises', '%s: %s' % (type(e).__name__, str(e)[:80]))
        t1, t2 = (term_of(x), term_of(y)) if o == 0 else (term_of(y), term_of(x))
        eng.check(t2 >= t1 if better == 'high' else t1 >= t2, 'mono-history')
        return {'inputs': ins, 'observe': []}
    return body


def body_manual(callf, kmin, kmax):
    """Tyrving: the same figure hand-timed (one decimal) never scores more than electronically timed (two decimals)"""
    def body(R):
        eng = E.cur()
        k = symint('k', kmin, kmax)            # tenths of a second
        R.partial = {'inputs': {'k': k}}
        from symrun.shadow import render_int
        ip = SymStr.lift(render_int(k // 10)).cells
        d = symcell('0123456789', 'd')
        eng.add((d.var - 48) == (k % 10).term)
        hand = _mk(ip + ['.', d])
        auto = _mk(ip + ['.', d, '0'])
        try:
            a = callf(hand)
            b = callf(auto)
        except Exception as e:
            raise hc.PathFail('raises', '%s: %s' % (type(e).__name__, str(e)[:80]))
        eng.check(term_of(a) <= term_of(b), 'manual')
        eng.check(z3.And(term_of(a) >= 0, term_of(b) >= 0), 'manual')       # results are never negative, hand-timed marks included
        return {'inputs': {'k': k}, 'observe': []}
    return body


# ------------------------------------------------------------------ job table
def build_jobs(athlib, quick):
    jobs = []
    ascore = sys.modules['athlib.athlon_score']
    codes = sys.modules['athlib.codes']
    ages_full = [None] + list(range(30, 116, 5)) + [37, 118]
    ages_quick = [None, 35, 70, 112]
    for o in ascore._scoring_table:
        g, ev, Z = o['gender'], o['event_code'], o['Z']
        jump = codes.PAT_JUMPS.match(ev) is not None
        throw = codes.PAT_THROWS.match(ev) is not None
        field = jump or throw
        kmax = int(100 * (Z / 100.0 if jump else Z)) + (3000 if jump else 20000) if field else int(100 * Z) + 3000
        aggrader = sys.modules['athlib.wma.agegrader'].AthlonsAgeGrader()
        for age in (ages_quick if quick else ages_full):
            if age:
                try:
                    aggrader.calculate_factor(g, age, ev)
                except ValueError:
                    continue        # no masters factor for this event: score() has nothing to adjust with
            jobs.append(('athlon', (g, ev, age), 0, kmax, 100, 'high' if field else 'low', 0, None))
            if not age:
                jobs.append(('athlon-history', (g, ev, None), 0, kmax, 100, 'high' if field else 'low', 0, None))
            if ev == '800' and g == 'M' and not age:
                jobs.append(('athlon-esaa', (g, ev, None), 0, kmax, 100, 'low', 0, None))
    hs = sys.modules['athlib.hungarian_score']
    for (g, io, ev, a, b, c) in hs.FACTORS:
        if b < 0:
            jobs.append(('hungarian', (g, io, ev), 1, int(-b * 100), 100, 'low', 0, None))    # up to the zero point of the parabola
            jobs.append(('hungarian', (g, io, ev), int(-b * 100) - 2, int(-b * 100) + 5000, 100, 'low', 0, None))   # and beyond it (scores 0)
        elif c == -5000 and ev in ('DEC', 'HEP', 'PEN'):
            jobs.append(('hungarian-int', (g, io, ev), 0, 12000, 1, 'high', 0, None))
        else:
            jobs.append(('hungarian', (g, io, ev), 0, 15000, 100, 'high', 0, None))
    ty = sys.modules['athlib.tyrving_score']
    for g, d in ty._tyrvingTables.items():
        for ev, (kind, args) in d.items():
            yvs = args[-1]
            yv = yvs[0] if kind in ('stav', 'throw', 'pv') or isinstance(yvs, list) and yvs and isinstance(yvs[0], (list, tuple, dict)) and kind != 'race' and kind != 'jump' else yvs
            if isinstance(yv, dict):
                ages = sorted(yv)
            else:
                y, v = yv
                ages = list(range(y, y + len(v)))
            sel = ages if (not quick or kind != 'race') else sorted({ages[0], ages[-1]})     # field formulas are cheap: every age also in the quick tier
            for age in sel:
                if kind == 'race':
                    dist = args[0]
                    base = max(_flat(yvs))
                    kmax = int(base * 100 * 3)
                    jobs.append(('tyrving', (g, age, ev), 1, kmax, 100, 'low', 0, None))
                    if dist <= 400 and not (quick and age != sel[0]):
                        jobs.append(('tyrving-manual', (g, age, ev), 10, int(base * 10 * 2), 10, 'low', 0, None))
                        jobs.append(('tyrving-history', (g, age, ev), 100, int(base * 100 * 2), 100, 'low', 0, None))
                else:
                    jobs.append(('tyrving', (g, age, ev), 0, 12000, 100, 'high', 0, None))
    qk = sys.modules['athlib.qkids_score']
    for ct, d in qk._qkidsTables.items():
        for ev, row in d.items():
            run = codes.PAT_RUN.match(ev) is not None
            jobs.append(('qkids', (ct, ev), 0, int(max(row[1], row[2]) * 100 * 2) + 500, 100, 'low' if run else 'high', 10, 100))
    sh = sys.modules['athlib.sportshall_score']
    db = sh.load_data()
    for ev, info in db.items():
        high = ev in ['SLJ', 'SHJ', 'STJ', 'SP', 'BAL', 'SPB', 'TART', 'OHT', 'CHT', 'JT']
        vals = [float(p) for _, p in info['perf2points']]
        jobs.append(('sportshall', (ev,), 0, int(max(vals) * 100 * 2) + 1000, 100, 'high' if high else 'low', 0, None))
    bg = sys.modules['athlib.bulgarian_score']
    import re as _re
    for key in bg.scores:
        m = _re.match(r'^(U\d\d)([MFX])(.+)$', key)
        ag, g, ev = m.groups()
        timed = ev in ['60', '100', '200', '600', '800', '60H', '100H']
        mx = max(bg.scores[key]['min'], bg.scores[key]['max'])
        jobs.append(('bulgarian', (ag, g, ev), 0, mx * 2 + 500, 100, 'low' if timed else 'high', 0, 150))
    return jobs


def _flat(x):
    out = []
    if isinstance(x, dict):
        for v in x.values():
            out += _flat(v)
    elif isinstance(x, (list, tuple)):
        for v in x:
            out += _flat(v)
    elif isinstance(x, (int, float)):
        out.append(x)
    return out


def call_of(system, params):
    athlib = hc._athlib
    if system == 'athlon-history':
        g, ev, age = params
        f = sys.modules['athlib.athlon_score'].score
        return (lambda p: f(g, ev, p)), 'athlib.athlon_score(%r, %r, perf)' % (g, ev)
    if system in ('athlon', 'athlon-esaa'):
        g, ev, age = params
        f = sys.modules['athlib.athlon_score'].score
        if system == 'athlon-esaa':
            return (lambda p: f(g, ev, p, esaa=True)), 'athlib.athlon_score(%r, %r, perf, esaa=True)' % (g, ev)
        return (lambda p: f(g, ev, p, age)), 'athlib.athlon_score(%r, %r, perf, %r)' % (g, ev, age)
    if system in ('hungarian', 'hungarian-int'):
        f = sys.modules['athlib.hungarian_score'].score
        return (lambda p: f(params[0], params[1], params[2], p)), 'athlib.hungarian_score(%r, %r, %r, perf)' % params
    if system in ('tyrving', 'tyrving-manual', 'tyrving-history'):
        f = sys.modules['athlib.tyrving_score'].tyrving_score
        return (lambda p: f(params[0], params[1], params[2], p)), 'athlib.tyrving_score(%r, %r, %r, perf)' % params
    if system == 'qkids':
        f = sys.modules['athlib.qkids_score'].qkids_score
        return (lambda p: f(params[0], params[1], p)), 'athlib.qkids_score(%r, %r, perf)' % params
    if system == 'sportshall':
        f = sys.modules['athlib.sportshall_score'].sportshall_score
        return (lambda p: f(params[0], p)), 'athlib.sportshall_score(%r, perf)' % params
    if system == 'bulgarian':
        f = sys.modules['athlib.bulgarian_score'].score
        return (lambda p: f(params[0], params[1], params[2], p)), 'athlib.bulgarian_score(%r, %r, %r, perf)' % params
    raise ValueError(system)


def worker(job):
    system, params, kmin, kmax, denom, better, lo, hi = job
    t0 = time.time()
    res = JobResult()
    callf, call_src = call_of(system, params)
    label = '%s%r' % (system, params)
    if system == 'sportshall':
        markf = lambda k: SymDecimal(k.term, 2)
        mark_src = "str(decimal.Decimal(k) / 100)"
    elif denom == 1:
        markf = lambda k: k
        mark_src = 'k'
    else:
        markf = lambda k: grid(k, denom)
        mark_src = 'k / %d' % denom
    prime_src = primef = None
    if system == 'tyrving-history':
        # the other call: the same event scored from a one-decimal text (hand-timed by Tyrving's convention), any time near the mark
        # (a concrete text: only the state the call leaves matters here, its value is the subject of the 'manual' clause)
        def primef(R, k):
            eng = E.cur()
            c = eng.choose(2, 'hand')
            h = ['%.1f' % (kmax / 200.0), '%d' % (kmax // 200)][c]
            try:
                callf(h)
            except Exception:
                pass
            return h
        prime_src = call_src.replace('perf', 'h')
    elif system == 'athlon-history':
        # the other call: the same event scored with the options the function has (a masters age, the ESAA table), any mark
        g_, ev_, _ = params
        fs = sys.modules['athlib.athlon_score'].score

        def primef(R, k):
            eng = E.cur()
            c = eng.choose(3, 'opt')
            age, esaa = [(45, False), (None, True), (62, True)][c]
            try:
                fs(g_, ev_, kmax / 200.0, age, esaa=esaa)       # a concrete mark: only the state the call leaves matters
            except Exception:
                pass
            return (age, esaa)
        prime_src = 'athlib.athlon_score(%r, %r, %r, h[0], esaa=h[1])' % (g_, ev_, kmax / 200.0)
    scripts = make_job_scripts(call_src, mark_src, better, lo, hi, label, prime_src)
    R = hc.Runner(res, plain(), call_src.split('(')[0], scripts, max_paths=60000, deadline=time.time() + 600, r_axioms=('mono', 'paired', 'err'))
    try:
        if system == 'tyrving-manual':
            R.explore(body_manual(callf, kmin, kmax), label)
        elif system.endswith('-history'):
            R.explore(body_history(callf, markf, kmin, kmax, better, primef), label)
        else:
            R.explore(body_mono(callf, markf, kmin, kmax, better, lo, hi), label)
    except E.Budget as e:
        res.inconclusive.append('%s: %s' % (label, e))
    res.extra['rows_' + system.split('-')[0]] = 1
    res.extra['seconds_' + system.split('-')[0]] = round(time.time() - t0, 2)
    return res


def run(chk, only=None):
    athlib = hc.load_athlib()
    import athlib.hungarian_score, athlib.bulgarian_score  # noqa
    quick = chk.tier == 'quick'
    jobs = build_jobs(athlib, quick)
    if only:
        jobs = [j for j in jobs if j[0].startswith(only)]
    chk.functions = ['athlib.athlon_score.score', 'athlib.wma.agegrader.AthlonsAgeGrader.calculate_factor', 'athlib.hungarian_score.score',
                     'athlib.tyrving_score.tyrving_score / TyrvingCalculator.*_points', 'athlib.qkids_score.qkids_score',
                     'athlib.sportshall_score.sportshall_score / score_high_event / score_low_event', 'athlib.bulgarian_score.score',
                     'athlib.utils.parse_hms / normalize_event_code / is_hand_timing']
    chk.stubs = ['doubles as reals with an uninterpreted monotone rounding function R (instances: monotone, sign, relative error 2**-53, integers exact) - sound for order statements, not for values',
                 'x ** y (non-integer y): uninterpreted PW, non-negative and monotone in the base; x ** 2 / x * x: uninterpreted SQ with its order facts',
                 'Decimal: exact scaled integers; dict lookup with a symbolic integer key: uninterpreted function with one fact per table cell',
                 'a mark on the grid is the double nearest to k/100 (what the literal, float(text) and k/100 all give)']
    chk.bounds = {'rows': len(jobs), 'marks': 'adjacent pairs k, k+1 on the 0.01 grid (1 point for combined-event totals) from 0 to beyond the tabulated range of each row',
                  'athlon_ages': 'no age + bands %s' % ('35, 70, 112' if quick else '30..115 in fives, 37, 118'),
                  'tyrving_ages': 'races: youngest and oldest tabulated age per event; jumps / throws: every tabulated age' if quick else 'every tabulated age',
                  'hungarian_timed': 'up to and beyond the zero point of the parabola (beyond it the score is 0)'}
    chk.bounds['history'] = ('Tyrving races up to 400 m and every combined-events row: one mark scored, one other call for the same row (a one-decimal or whole-second, hand-timed '
                             'text resp. the masters-age / ESAA options, at one concrete mark), then the adjacent mark scored - the order clause must still hold, both orders')
    chk.outside = ['last-bit behaviour of libm pow (order through pow is assumed monotone)', 'marks given as text (C11) except the Tyrving hand-timing clause',
                   'non-adjacent pairs are covered by transitivity only']
    print('C05: %d rows' % len(jobs), flush=True)
    pool.run_jobs(chk, worker, jobs, chunksize=2, progress=500)
    chk.extra['functions_loaded_through_hook'] = hc.functions_loaded()
