"""C07 - event-code normalisation yields one canonical, valid, stable spelling.

The real normalize_event_code / check_event_code / _norm_* source (loaded through
the import hook) runs on symbolic strings: one template of the live
PAT_EVENT_CODE parse tree at a time, every character a symbolic cell ranging
over its class.  The symbolic regex matcher supplies group spans; every test
on a cell is a domain split whose constraint joins the path condition, z3
decides feasibility / produces one witness per path, and equality clauses
between two normalisations are discharged as z3 queries.
"""
import os
import sys
import time
import random

import z3

from vlib import core, pool
from vlib.pool import JobResult
from harness import hc
from symrun import engine as E, templates as T
from symrun.strings import SymStr, Cell, symcell, cell_test, WS_CHARS, _mk

FAMILIES = ['PAT_TRACK', 'PAT_HURDLES', 'PAT_ROAD', 'PAT_RELAYS', 'PAT_VERTICAL_JUMPS', 'PAT_HORIZONTAL_JUMPS',
            'PAT_THROWS', 'PAT_MULTI', 'PAT_RACES_FOR_DISTANCE', 'PAT_HIGHSCORING_EVENT', 'PAT_LOWSCORING_EVENT']
WEIGHT_GROUPS = ['dtnum', 'jtnum', 'htnum', 'spnum', 'wtnum', 'swtnum', 'btnum', 'stnum', 'gdtnum', 'otnum']
HURDLE_GROUPS = ['hhh', 'hsd', 'hid']
NEAR_MISS_ALPHABET = ''.join(sorted(set('abcdefghijklmnopqrstuvwxyzABCDEFGHIJKLMNOPQRSTUVWXYZ0123456789 \t\n.,:;-_/x#') | {'٣'}))

_PRE = 'import sys, athlib\nfrom athlib import codes\ns = {s}\n'
SCRIPTS = {
    'accepted-but-refused': _PRE + (
        "ok = athlib.check_event_code(s) is not None\n"
        "try:\n    r = athlib.normalize_event_code(s); bad = False\nexcept Exception as e:\n    r = repr(e); bad = ok\n"
        "print(repr(s), 'accepted' if ok else 'rejected', '->', r)\nsys.exit(1 if bad else 0)\n"),
    'result-rejected': _PRE + (
        "r = athlib.normalize_event_code(s)\nok = athlib.check_event_code(r) is not None\n"
        "print(repr(s), '->', repr(r), 'accepted' if ok else 'REJECTED')\nsys.exit(0 if ok else 1)\n"),
    'whitespace-left': _PRE + (
        "r = athlib.normalize_event_code(s)\nbad = any(ch.isspace() for ch in r)\n"
        "print(repr(s), '->', repr(r))\nsys.exit(1 if bad else 0)\n"),
    'not-idempotent': _PRE + (
        "r = athlib.normalize_event_code(s)\ntry:\n    r2 = athlib.normalize_event_code(r)\nexcept Exception as e:\n    r2 = repr(e)\n"
        "print(repr(s), '->', repr(r), '->', repr(r2))\nsys.exit(0 if r2 == r else 1)\n"),
    'family-changed': _PRE + (
        "r = athlib.normalize_event_code(s)\n"
        "fam = lambda t: [n for n in %r if getattr(codes, n).match(t)]\n"
        "print(repr(s), fam(s), '->', repr(r), fam(r))\nsys.exit(0 if fam(s) == fam(r) else 1)\n" % (FAMILIES,)),
    # gained-ws: the only difference is that the normalised code matches additional families which do not
    # tolerate the whitespace the input contained (a recorded known finding, see known_findings.json)
    'family-changed:gained-ws': _PRE + (
        "r = athlib.normalize_event_code(s)\n"
        "fam = lambda t: set(n for n in %r if getattr(codes, n).match(t))\n"
        "print(repr(s), sorted(fam(s)), '->', repr(r), sorted(fam(r)))\n"
        "sys.exit(1 if fam(s) < fam(r) and any(c.isspace() for c in s) else 0)\n" % (FAMILIES,)),
    'variant-differs': _PRE + (
        "t = {t}\nok = athlib.check_event_code(s) is not None and athlib.check_event_code(t) is not None\n"
        "a = athlib.normalize_event_code(s); b = athlib.normalize_event_code(t)\n"
        "print(repr(s), '->', repr(a), ';', repr(t), '->', repr(b))\nsys.exit(1 if ok and a != b else 0)\n"),
    'refusal': _PRE + (
        "acc = athlib.check_event_code(s.strip()) is not None\n"
        "try:\n    r = athlib.normalize_event_code(s); out = 'value'\nexcept ValueError as e:\n    r = repr(e); out = 'ValueError'\n"
        "except Exception as e:\n    r = repr(e); out = 'other'\n"
        "print(repr(s), 'accepted' if acc else 'rejected', '->', r)\n"
        "sys.exit(1 if out == 'other' or (not acc and out != 'ValueError') else 0)\n"),
    # history: the answer for u must not depend on an earlier call for the sibling spelling s
    'history-differs': _PRE + (
        "u = {u}\n"
        "def f(x):\n"
        "    try:\n        return ('value', athlib.normalize_event_code(x))\n"
        "    except ValueError:\n        return ('ValueError',)\n"
        "    except Exception as e:\n        return ('other', type(e).__name__)\n"
        "r0 = f(u); f(s); r1 = f(u)\n"
        "print('first call for', repr(u), '->', r0, '; after a call for', repr(s), '->', r1)\nsys.exit(0 if r0 == r1 else 1)\n"),
    'unexpected-exception': _PRE + (
        "try:\n    r = athlib.normalize_event_code(s); bad = False\nexcept ValueError as e:\n    r = repr(e); bad = athlib.check_event_code(s) is not None\n"
        "except Exception as e:\n    r = repr(e); bad = True\nprint(repr(s), '->', r)\nsys.exit(1 if bad else 0)\n"),
}

plain = hc.plain


def mk_string(template):
    return _mk([symcell(d, 'c%d' % i) if len(d) > 1 else next(iter(d)) for i, d in enumerate(template)])


def classify(cell):
    """concrete classification of a cell by its current domain: 'digit', 'dot', 'ws', 'letter', 'mixed'"""
    chars = {cell} if isinstance(cell, str) else cell.chars()
    if all(c.isdigit() for c in chars):
        return 'digit'
    if chars == {'.'}:
        return 'dot'
    if all(c.isspace() for c in chars):
        return 'ws'
    if all(c.isalpha() for c in chars):
        return 'letter'
    return 'mixed'


def variants_of(s, m):
    """edits of s that the property declares equivalent: (kind, new string).  Built from the group spans
    found by the real check_event_code on s; every variant shares the cells of s."""
    cells = SymStr.lift(s).cells
    n = len(cells)
    out = []
    # letter case: swap the case of one letter cell
    for i, c in enumerate(cells):
        if classify(c) == 'letter':
            sw = c.swapcase() if isinstance(c, str) else c.mapped(str.swapcase)
            out.append(('case@%d' % i, _mk(cells[:i] + [sw] + cells[i + 1:])))
    # spacing: one more whitespace character anywhere
    for i in range(n + 1):
        out.append(('space@%d' % i, ('ws', i)))
    gd = m.groupdict()
    for g in WEIGHT_GROUPS + HURDLE_GROUPS:
        if g not in gd or gd[g] is None:
            continue
        a, b = m.span(g)
        if a == b:
            continue
        # end of the number inside the span: [ws] digits [. digits]
        p = a
        while p < b and classify(cells[p]) == 'ws':
            p += 1
        q = p
        seen_dot = False
        while q < b and (classify(cells[q]) == 'digit' or (classify(cells[q]) == 'dot' and not seen_dot)):
            if classify(cells[q]) == 'dot':
                seen_dot = True
            q += 1
        if q > p:
            if seen_dot:
                out.append(('tzero:%s' % g, _mk(cells[:q] + ['0'] + cells[q:])))
            else:
                out.append(('tdot:%s' % g, _mk(cells[:q] + ['.'] + cells[q:])))
                out.append(('tdotzero:%s' % g, _mk(cells[:q] + ['.', '0'] + cells[q:])))
        if g in WEIGHT_GROUPS:
            last = cells[b - 1]
            lc = {last} if isinstance(last, str) else last.chars()
            if not (lc <= set('gG')):
                out.append(('suffix-g:%s' % g, ('g', b)))
    return out


def body_main(template, mode):
    def body(R):
        athlib = hc._athlib
        codes = sys.modules['athlib.codes']
        s = mk_string(template)
        R.partial = {'inputs': {'s': s}}
        if mode.startswith('primed'):
            # two spellings that share all cells but one (mode = 'primed@<slot>'): the answer for u in a fresh library state, then a
            # call for s, then u again - same outcome required (a memo keyed too coarsely, scratch state left by the first call ...)
            slot = mode.split('@')[1]
            cells = list(SymStr.lift(s).cells)
            broad = symcell(frozenset(NEAR_MISS_ALPHABET), 'nm')
            if slot == 'app':
                u = _mk(cells + [broad])
            elif slot == 'pre':
                u = _mk([broad] + cells)
            elif slot.startswith('ins'):
                u = _mk(cells[:int(slot[3:])] + [broad] + cells[int(slot[3:]):])
            else:
                u = _mk(cells[:int(slot)] + [broad] + cells[int(slot) + 1:])
            R.partial = {'inputs': {'s': s, 'u': u}}

            def outcome(x):
                try:
                    return ('value', athlib.normalize_event_code(x))
                except ValueError:
                    return ('ValueError',)
            r0 = outcome(u)
            outcome(s)
            r1 = outcome(u)
            if r0[0] != r1[0]:
                raise hc.PathFail('history-differs', 'first call %s, after the sibling spelling %s' % (r0[0], r1[0]))
            if r0[0] == 'value':
                E.cur().check(hc.symstr_eq_term(r0[1], r1[1]), 'history-differs')
                return {'inputs': {'s': s, 'u': u}, 'observe': [('_after(s, u)', r1[1])]}
            return {'inputs': {'s': s, 'u': u}, 'observe': [('_after(s, u)', ('raises', 'ValueError'))]}
        m = athlib.check_event_code(s)
        if mode == 'near':
            # near-miss: refusal clause.  (normalisation strips surrounding whitespace first, so the oracle is on s.strip())
            acc = athlib.check_event_code(s.strip()) is not None
            try:
                r = athlib.normalize_event_code(s)
            except ValueError:
                if acc:
                    raise hc.PathFail('accepted-but-refused')
                return {'inputs': {'s': s}, 'observe': [('athlib.normalize_event_code(s)', ('raises', 'ValueError'))]}
            except Exception as e:
                raise hc.PathFail('refusal', 'raised %s' % type(e).__name__)
            if not acc:
                raise hc.PathFail('refusal', 'returned a value for a string that is not an event code')
            return {'inputs': {'s': s}, 'observe': [('athlib.normalize_event_code(s)', r)]}
        if m is None:
            return {'inputs': {'s': s}, 'observe': [('athlib.check_event_code(s)', None)], 'note': 'template-not-accepted'}
        try:
            r = athlib.normalize_event_code(s)
        except ValueError:
            raise hc.PathFail('accepted-but-refused')
        eng = E.cur()
        if mode.startswith('variant'):
            vs = variants_of(s, m)
            if not vs:
                return {'inputs': {'s': s}, 'observe': []}
            k = eng.choose(len(vs), 'variant')
            kind, t = vs[k]
            if isinstance(t, tuple):
                cells = SymStr.lift(s).cells
                if t[0] == 'ws':
                    t = _mk(cells[:t[1]] + [symcell(WS_CHARS, 'wsv')] + cells[t[1]:])
                else:
                    t = _mk(cells[:t[1]] + [symcell('gG', 'gv')] + cells[t[1]:])
            R.partial = {'inputs': {'s': s, 't': t}}
            if athlib.check_event_code(t) is None:
                return {'inputs': {'s': s, 't': t}, 'observe': [], 'note': 'variant-not-a-code'}
            try:
                r2 = athlib.normalize_event_code(t)
            except ValueError:
                R.partial = {'inputs': {'s': t}}
                raise hc.PathFail('accepted-but-refused')
            eng.check(hc.symstr_eq_term(r, r2), 'variant-differs', kind)
            return {'inputs': {'s': s, 't': t}, 'observe': [('athlib.normalize_event_code(t)', r2)]}
        # closure
        if athlib.check_event_code(r) is None:
            raise hc.PathFail('result-rejected')
        for c in SymStr.lift(r).cells:
            if cell_test(c, str.isspace):
                raise hc.PathFail('whitespace-left')
        try:
            r2 = athlib.normalize_event_code(r)
        except ValueError:
            raise hc.PathFail('not-idempotent')
        eng.check(hc.symstr_eq_term(r, r2), 'not-idempotent')
        gained, lost = [], []
        for fam in FAMILIES:
            p = getattr(codes, fam)
            a, b = (p.match(s) is not None), (p.match(r) is not None)
            if a and not b:
                lost.append(fam)
            elif b and not a:
                gained.append(fam)
        if lost or gained:
            has_ws = any(cell_test(c, str.isspace) for c in SymStr.lift(s).cells)
            if gained and not lost and has_ws:
                raise hc.PathFail('family-changed:gained-ws', 'gained %s' % gained)
            raise hc.PathFail('family-changed', 'gained %s lost %s' % (gained, lost))
        return {'inputs': {'s': s}, 'observe': [('athlib.normalize_event_code(s)', r)]}
    return body


def worker(job):
    mode, template, budget = job
    res = JobResult()
    R = hc.Runner(res, plain(), 'athlib.normalize_event_code', SCRIPTS, max_paths=30000,
                  deadline=time.time() + budget, witness_every=1)
    label = '%s %s' % (mode, T.show(template))
    R.witness_prelude = ('def _after(s, u):\n    try:\n        athlib.normalize_event_code(s)\n    except ValueError:\n        pass\n'
                         '    return athlib.normalize_event_code(u)\n')
    try:
        R.explore(body_main(template, mode), label)
    except E.Budget as e:
        res.inconclusive.append('%s: %s' % (label, e))
    res.extra['templates'] = 1
    return res


def near_miss_templates(templates, rng, per_template=2):
    """replace one slot (or append / prepend one) by a broad alphabet"""
    broad = frozenset(NEAR_MISS_ALPHABET)
    out = []
    for t in templates:
        n = len(t)
        pos = sorted(rng.sample(range(n), min(per_template, n))) if n else []
        for i in pos:
            out.append(t[:i] + (broad,) + t[i + 1:])
        out.append(t + (broad,))
        out.append((broad,) + t)
    return out


def run(chk, only=None):
    athlib = hc.load_athlib()
    codes = sys.modules['athlib.codes']
    rng = random.Random(chk.seed)
    quick = chk.tier == 'quick'
    pat = codes.PAT_EVENT_CODE._real
    rule_main = T.Rule(plus=(1, 3), star=(0, 2), ws=(0, 1), max_ws=0 if quick else 1)
    main = T.templates_of(pat, rule_main)
    rule_q = rule_main
    if quick:
        # quick tier: every non-hurdles-spec template, a seeded sample of the hurdles-spec ones
        hs = [t for t in main if any(d == frozenset('c') for d in t) and any(d == frozenset('m') for d in t)]
        rng.shuffle(hs)
        keep = set(hs[:1200])
        main = [t for t in main if t in keep or t not in set(hs)]
    rule_var = T.Rule(plus=(1, 2), star=(0, 1), ws=(0, 1), max_ws=0)
    var_all = T.templates_of(pat, rule_var)
    # hurdles specifications are >95% of the template space: they are all run for the closure clauses;
    # the (costlier) variant clauses take every non-hurdles template and a seeded sample of the hurdles ones
    def is_hspec(t):
        return any(d == frozenset('c') for d in t) and any(d == frozenset('m') for d in t)
    var_small = [t for t in var_all if not is_hspec(t)]
    var_h = [t for t in var_all if is_hspec(t)]
    rng.shuffle(var_h)
    var_h = var_h[:150 if quick else 1500]
    base_near = [t for t in T.templates_of(pat, T.Rule(plus=(1, 2), star=(0, 1), ws=(0, 1), max_ws=0)) if not is_hspec(t)]
    near = near_miss_templates(base_near, rng, 1 if quick else 3)
    if quick:
        near = near[::3]
    primed = []
    for t in base_near:
        n = len(t)
        slots = [str(i) for i in (sorted(rng.sample(range(n), min(3, n))) if quick else range(n))] + ['app', 'pre']
        if n > 1:
            slots += ['ins%d' % i for i in (sorted(rng.sample(range(1, n), min(2, n - 1))) if quick else range(1, n))]
        primed += [('primed@%s' % sl, t) for sl in slots]
    if only:
        primed = [(m_, t) for (m_, t) in primed if only in T.show(t)] if only != 'primed' else primed
    if only == 'primed':
        main, var_small, var_h, near, only = [], [], [], [], None
    if only:
        main = [t for t in main if only in T.show(t)]
        var_small = [t for t in var_small if only in T.show(t)]
        var_h = []
        near = []
    budget = 120 if quick else 600
    jobs = [('main', t, budget) for t in main] + [('variant', t, budget) for t in var_small + var_h] + \
           [('near', t, budget) for t in near] + [(m_, t, budget) for (m_, t) in primed]
    rng.shuffle(jobs)
    chk.functions = ['athlib.utils.normalize_event_code', 'athlib.utils.check_event_code', 'athlib.utils._norm_tzeroes',
                     'athlib.utils._norm_cm', 'athlib.utils._norm_m', 'athlib.utils._norm_kg', 'athlib.utils._norm_g',
                     'athlib.codes.PAT_EVENT_CODE / PAT_RELAYS / family patterns (live parse trees, symbolic matcher)']
    chk.stubs = ['regex matching on symbolic strings by symrun.rematch (backtracking over the sre parse tree, re priority order); '
                 'validated per path against the real re through the witness replay',
                 'character domains: \\d = 0-9 plus two non-ASCII decimal digits, \\s = the 29 whitespace characters below U+3001, '
                 'letters exactly as in the pattern classes']
    chk.bounds = {'templates_main': len(main), 'templates_variants': len(var_small) + len(var_h), 'templates_near_miss': len(near),
                  'rule_main': rule_main.describe(), 'rule_variants': rule_var.describe(),
                  'variant_edits': 'swap case of one letter; insert one whitespace char at any position; append 0 / . / .0 to the number of an '
                                   'implement-weight or hurdle-spec group; append g/G to a weight group',
                  'near_miss': 'one slot (or one extra leading/trailing char) ranges over %d chars' % len(NEAR_MISS_ALPHABET),
                  'templates_history': len(primed),
                  'history': 'call sequences of three (u, its sibling spelling s that differs in one slot - replaced, inserted, appended or prepended - over the near-miss alphabet, u again) from the '
                             'restored library state; stores under a symbolic key go to a per-path table'}
    chk.outside = ['digit runs longer than 3 (x+) / 2 (x*); more than %d optional whitespace run(s) filled per template in the closure clauses' % rule_main.max_ws,
                   'characters outside the per-class representative domains (e.g. the other ~600 Unicode decimal digits)',
                   'hurdles-specification templates in the variant clauses beyond the seeded sample of %d' % len(var_h)]
    print('C07: %d closure templates, %d variant templates, %d near-miss templates, %d history templates' % (len(main), len(var_small) + len(var_h), len(near), len(primed)), flush=True)
    pool.run_jobs(chk, worker, jobs, chunksize=4, progress=2000)
    chk.extra['functions_loaded_through_hook'] = hc.functions_loaded()
