"""C06 - times are never rounded down: decimal rounding, formatting and parsing agree.

Part A  round_up_str_num on digit-cell strings (every digit symbolic) against the
        integer ceiling oracle, all shapes int 0-4 digits x fraction 0-7 digits x prec 0-5.
Part B  format_seconds_as_time on a symbolic duration (grid k/1000 and arbitrary
        real in [0, 100h)), reals-with-rounding float model; '%.8f' by the
        correctly-rounded-decimal contract (symrun/dtoa.py); the result string
        is parsed back by the real parse_hms and compared with the duration.
Part C  parse_hms / str2num on digit templates (exact sexagesimal oracle) and on
        arbitrary short texts (only ValueError may escape).
"""
import sys
import time
import itertools
import fractions

import z3

from vlib import core, pool
from vlib.pool import JobResult
from harness import hc
plain = hc.plain
from symrun import engine as E
from symrun.values import SymInt, SymFloat, symint, realval
from symrun.strings import SymStr, Cell, symcell, cell_test, parse_int, _mk
from symrun.shadow import render_int
from symrun import floatmodel

ARB_ALPHABET = '0123456789:;., -+x'

SCRIPTS = {
    'rup-value': 'import sys, athlib\nfrom fractions import Fraction\nimport math\ns = {s}\nprec = {prec}\n' + (
        "r = athlib.round_up_str_num(s, prec)\n"
        "ip, _, fp = s.partition('.')\nU = int(ip or '0') * 10**5 + int((fp[:5] + '00000')[:5])\nstep = 10 ** (5 - prec)\nE_ = -((-U) // step)\n"
        "ok = True\n"
        "if prec == 0: ok = r.isdigit() and int(r) == E_\n"
        "else:\n    a, dot, b = r.partition('.')\n    ok = dot == '.' and a.isdigit() and b.isdigit() and len(b) == prec and int(a) * 10**prec + int(b) == E_\n"
        "print(repr(s), prec, '->', repr(r), 'expected value', E_, '/ 10^%d' % prec)\nsys.exit(0 if ok else 1)\n"),
    'rup-raises': 'import sys, athlib\ns = {s}\nprec = {prec}\n' + (
        "try:\n    r = athlib.round_up_str_num(s, prec); bad = False\nexcept Exception as e:\n    r = repr(e); bad = True\nprint(repr(s), prec, '->', r)\nsys.exit(1 if bad else 0)\n"),
    'fmt': 'import sys, athlib, re\nfrom fractions import Fraction\nseconds = {seconds}\nprec = {prec}\n' + (
        "r = athlib.format_seconds_as_time(seconds, prec)\n"
        "m = re.fullmatch(r'(?:(\\d+):(\\d\\d):(\\d\\d)|(\\d+):(\\d\\d)|(\\d+))' + (r'\\.(\\d{{%d}})' % prec if prec else '()'), r)\n"
        "ok = m is not None\n"
        "if ok:\n"
        "    g = m.groups()\n"
        "    if g[0] is not None: ok = int(g[1]) < 60 and int(g[2]) < 60 and int(g[0]) > 0\n"
        "    elif g[3] is not None: ok = int(g[4]) < 60 and int(g[3]) > 0\n"
        "    else: ok = int(g[5]) < 60\n"
        "    back = Fraction(athlib.parse_hms(r))\n"
        "    d = Fraction(seconds)\n"
        "    ok = ok and back >= d - Fraction(1, 10**5) - Fraction(1, 10**8) and back < d + Fraction(1, 10**prec) + Fraction(1, 10**8)\n"
        "print(repr(seconds), prec, '->', repr(r))\nsys.exit(0 if ok else 1)\n"),
    'fmt-raises': 'import sys, athlib\nseconds = {seconds}\nprec = {prec}\n' + (
        "try:\n    r = athlib.format_seconds_as_time(seconds, prec); bad = False\nexcept Exception as e:\n    r = repr(e); bad = True\nprint(repr(seconds), prec, '->', r)\nsys.exit(1 if bad else 0)\n"),
    'fmt8': 'import sys, athlib, re\nfrom fractions import Fraction\nS = {S}\nV = {V}\nprec = {prec}\nseconds = S + V / 1e8\n' + (
        "r = athlib.format_seconds_as_time(seconds, prec)\n"
        "m = re.fullmatch(r'(?:(\\d+):(\\d\\d):(\\d\\d)|(\\d+):(\\d\\d)|(\\d+))' + (r'\\.(\\d{{%d}})' % prec if prec else '()'), r)\n"
        "ok = m is not None\n"
        "if ok:\n"
        "    g = m.groups()\n"
        "    if g[0] is not None: ok = int(g[1]) < 60 and int(g[2]) < 60 and int(g[0]) > 0\n"
        "    elif g[3] is not None: ok = int(g[4]) < 60 and int(g[3]) > 0\n"
        "    else: ok = int(g[5]) < 60\n"
        "    back = Fraction(athlib.parse_hms(r))\n"
        "    d = Fraction(seconds)\n"
        "    ok = ok and back >= d - Fraction(1, 10**5) - Fraction(1, 10**8) and back < d + Fraction(1, 10**prec) + Fraction(1, 10**8)\n"
        "print(repr(seconds), prec, '->', repr(r))\nsys.exit(0 if ok else 1)\n"),
    'fmt8-raises': 'import sys, athlib\nS = {S}\nV = {V}\nprec = {prec}\nseconds = S + V / 1e8\n' + (
        "try:\n    r = athlib.format_seconds_as_time(seconds, prec); bad = False\nexcept Exception as e:\n    r = repr(e); bad = True\nprint(repr(seconds), prec, '->', r)\nsys.exit(1 if bad else 0)\n"),
    'hms-exact': 'import sys, athlib, re\nfrom fractions import Fraction\nt = {t}\n' + (
        "try:\n    v = athlib.parse_hms(t)\nexcept ValueError as e:\n    v = e\n"
        "sep = ':' if ':' in t else ';'\nparts = t.split(sep)\n"
        "uniform = all(re.fullmatch(r'\\d+(\\.\\d+)?', p) for p in parts)\n"
        "ok = True\n"
        "if uniform:\n"
        "    exact = Fraction(0)\n"
        "    for p in parts: exact = exact * 60 + Fraction(p)\n"
        "    allint = all(p.isdigit() for p in parts)\n"
        "    ok = not isinstance(v, Exception) and (type(v) is int and v == exact if allint else abs(Fraction(v) - exact) <= Fraction(1, 10**9) * max(1, exact))\n"
        "print(repr(t), '->', repr(v))\nsys.exit(0 if ok else 1)\n"),
    'hms-exception': 'import sys, athlib\nt = {t}\n' + (
        "try:\n    v = athlib.parse_hms(t); ok = isinstance(v, (int, float)) and not isinstance(v, bool)\nexcept ValueError as e:\n    v = repr(e); ok = True\n"
        "except Exception as e:\n    v = repr(e); ok = False\nprint(repr(t), '->', v)\nsys.exit(0 if ok else 1)\n"),
    'unexpected-exception': 'import sys\nsys.exit(0)\n',
}


def digits(n, tag):
    return [symcell('0123456789', '%s%d' % (tag, i)) for i in range(n)]


def val_term(cells):
    t = z3.IntVal(0)
    for c in cells:
        t = t * 10 + ((c.var - 48) if isinstance(c, Cell) else z3.IntVal(ord(c) - 48))
    return t


def split_number(r, prec):
    """structure check of a result of round_up_str_num -> z3 Int term of value*10**prec, or None"""
    cells = SymStr.lift(r).cells
    if prec == 0:
        if not cells or not all(cell_test(c, lambda ch: ch in '0123456789') for c in cells):
            return None
        return val_term(cells)
    idx = [i for i, c in enumerate(cells) if cell_test(c, lambda ch: ch == '.')]
    if len(idx) != 1:
        return None
    a, b = cells[:idx[0]], cells[idx[0] + 1:]
    if not a or len(b) != prec:
        return None
    if not all(cell_test(c, lambda ch: ch in '0123456789') for c in a + b):
        return None
    return val_term(a) * (10 ** prec) + val_term(b)


def body_rup(ni, dot, nf, prec):
    def body(R):
        utils = sys.modules['athlib.utils']
        eng = E.cur()
        ic = digits(ni, 'i')
        fc = digits(nf, 'f') if dot else []
        s = _mk(ic + (['.'] if dot else []) + fc)
        R.partial = {'inputs': {'s': s, 'prec': prec}}
        try:
            r = utils.round_up_str_num(s, prec)
        except Exception as e:
            raise hc.PathFail('rup-raises', type(e).__name__)
        U = val_term(ic) * (10 ** 5) + val_term((fc + ['0'] * 5)[:5])
        step = 10 ** (5 - prec)
        Eo = (U + step - 1) / step        # U >= 0: integer division is floor
        v = split_number(r, prec)
        if v is None:
            raise hc.PathFail('rup-value', 'malformed result %r' % (r,))
        eng.check(v == Eo, 'rup-value')
        return {'inputs': {'s': s, 'prec': prec}, 'observe': [('athlib.round_up_str_num(s, prec)', r)]}
    return body


class FracProxy(object):
    """seconds - int(seconds): a double in [0, 1) known only through its fixed-point rendering"""
    _sx_symbolic = True

    def __init__(self, V):
        self.V = V          # z3 Int: round(frac * 10**8), 0 .. 10**8

    def _sx_format_fixed(self, prec, width, zero):
        if width:
            raise E.Unsupported('fraction formatted with a field width')
        eng = E.cur()
        if prec == 8:
            W = self.V
        else:
            # '%.Nf' shows W = round(frac * 10**N); frac is known through V = round(frac * 10**8) only, so W is any
            # integer compatible with some frac in [(V - 1/2), (V + 1/2)] / 10**8  (sound over-approximation)
            W = z3.Int(eng.fresh_name('W'))
            eng.overapprox_used = True
            if prec < 8:
                k = 10 ** (8 - prec)
                eng.add(z3.And(W >= 0, 2 * W * k - 2 * self.V <= k + 1, 2 * self.V - 2 * W * k <= k + 1))
            else:
                j = 10 ** (prec - 8)
                eng.add(z3.And(W >= 0, 2 * W - 2 * self.V * j <= j + 1, 2 * self.V * j - 2 * W <= j + 1))
        p = 10 ** prec
        ip = SymInt(W / p)
        cells = list(SymStr.lift(render_int(ip)).cells)
        if prec:
            cells.append('.')
            fr = z3.IntVal(0)
            for i in range(prec):
                c = symcell('0123456789', 'fd')
                cells.append(c)
                fr = fr * 10 + (c.var - 48)
            eng.add(fr == W % p)
        return _mk(cells)

    def __round__(self, ndigits=None):
        # round(frac, n): frac is known through V = round(frac * 10**8) only, so the result is W / 10**n for any integer W compatible
        # with some frac in [(V - 1/2), (V + 1/2)] / 10**8 (same sound over-approximation as '%.Nf'); candidates are replayed
        if not isinstance(ndigits, int) or isinstance(ndigits, bool) or not (0 <= ndigits < 8):
            raise E.Unsupported('round(frac, %r) on the fractional-seconds proxy' % (ndigits,))
        eng = E.cur()
        W = z3.Int(eng.fresh_name('Wr'))
        eng.overapprox_used = True
        k = 10 ** (8 - ndigits)
        eng.add(z3.And(W >= 0, 2 * W * k - 2 * self.V <= k + 1, 2 * self.V - 2 * W * k <= k + 1))
        return SymFloat(z3.ToReal(W) / z3.RealVal(10 ** ndigits))

    def __getattr__(self, name):
        raise E.Unsupported('operation %s on the fractional-seconds proxy' % name)


class DurProxy(object):
    """a non-negative duration given as  S = int(seconds)  and  V = round((seconds - S) * 10**8)"""
    _sx_symbolic = True

    def __init__(self, S, V):
        self.S = S
        self.V = V

    def _sx_int(self):
        return self.S

    def __sub__(self, o):
        if isinstance(o, SymInt) and o.term.eq(self.S.term):
            return FracProxy(self.V)
        raise E.Unsupported('duration proxy minus something that is not its integer part')

    def __getattr__(self, name):
        raise E.Unsupported('operation %s on the duration proxy' % name)


def body_fmt(form, prec):
    def body(R):
        utils = sys.modules['athlib.utils']
        eng = E.cur()
        lab = 'fmt8' if form == 'frac8' else 'fmt'
        if form == 'frac8':
            S = symint('S', 0, 359999)
            V = z3.Int(eng.fresh_name('V'))
            eng.add(z3.And(V >= 0, V <= 10 ** 8))
            seconds = DurProxy(S, V)
            st = z3.ToReal(S.term) + z3.ToReal(V) / (10 ** 8)
        elif form == 'int':
            seconds = symint('k', 0, 359999)
            st = z3.ToReal(seconds.term)
        else:
            raise ValueError(form)
        inputs = {'S': S, 'V': SymInt(V), 'prec': prec} if form == 'frac8' else {'seconds': seconds, 'prec': prec}
        R.partial = {'inputs': inputs}
        try:
            r = utils.format_seconds_as_time(seconds, prec)
        except Exception as e:
            raise hc.PathFail(lab + '-raises', type(e).__name__)
        cells = SymStr.lift(r).cells
        # --- shape: fields separated by ':', seconds field with exactly prec decimals
        fields = []
        cur = []
        for c in cells:
            if cell_test(c, lambda ch: ch == ':'):
                fields.append(cur)
                cur = []
            else:
                cur.append(c)
        fields.append(cur)
        if not (1 <= len(fields) <= 3):
            raise hc.PathFail(lab, 'fields')
        last = fields[-1]
        dots = [i for i, c in enumerate(last) if cell_test(c, lambda ch: ch == '.')]
        if (prec == 0 and dots) or (prec > 0 and (len(dots) != 1 or len(last) - dots[0] - 1 != prec)):
            raise hc.PathFail(lab, 'decimals')
        sec_int = last[:dots[0]] if dots else last
        for f in fields[:-1] + [sec_int, last[dots[0] + 1:] if dots else []]:
            if not all(cell_test(c, lambda ch: ch in '0123456789') for c in f):
                raise hc.PathFail(lab, 'non-digit')
        if not sec_int or any(not f for f in fields[:-1]):
            raise hc.PathFail(lab, 'empty field')
        if len(fields) > 1 and len(sec_int) != 2:
            raise hc.PathFail(lab, 'seconds not two digits')
        if len(fields) == 3 and len(fields[1]) != 2:
            raise hc.PathFail(lab, 'minutes not two digits')
        eng.check(val_term(sec_int) < 60, lab)
        if len(fields) == 3:
            eng.check(val_term(fields[1]) < 60, lab)
        if len(fields) == 2:
            eng.check(val_term(fields[0]) < 60, lab)
        # --- value: the fields read as sexagesimal digits (parse_hms itself is Part C) against the ceiling oracle
        hv = val_term(fields[0]) if len(fields) == 3 else z3.IntVal(0)
        mv = val_term(fields[-2]) if len(fields) >= 2 else z3.IntVal(0)
        scaled = ((hv * 60 + mv) * 60 + val_term(sec_int)) * (10 ** prec) + (val_term(last[dots[0] + 1:]) if dots else 0)
        if form == 'frac8':
            # the property itself, in units of 1e-8 s (seconds = S + V/1e8 up to the 5e-9 of the fixed-point contract):
            #   text >= seconds - 1e-5 (noise)    and    text < seconds + 10**-prec
            text8 = scaled * (10 ** (8 - prec))
            dur8 = S.term * (10 ** 8) + V
            eng.check(text8 >= dur8 - 1000 - 1, lab)
            eng.check(text8 < dur8 + 10 ** (8 - prec) + 1, lab)
            obs = [('athlib.format_seconds_as_time(S + V / 1e8, prec)', r)]
        else:
            eng.check(scaled == seconds.term * (10 ** prec), lab)
            obs = [('athlib.format_seconds_as_time(seconds, prec)', r)]
        # leading field is not zero-padded and present only when non-zero
        if len(fields) > 1:
            eng.check(val_term(fields[0]) > 0, lab)
        return {'inputs': inputs, 'observe': obs, 'result': r}
    return body


def body_fmt_prime(prec):
    """the earlier call of the history clause: a duration below one minute (S in 0..59, any V), no clauses of its own"""
    def body(R):
        utils = sys.modules['athlib.utils']
        eng = E.cur()
        S = symint('pS', 0, 59)
        V = z3.Int(eng.fresh_name('pV'))
        eng.add(z3.And(V >= 0, V <= 10 ** 8))
        inputs = {'S': S, 'V': SymInt(V), 'prec': prec}
        R.partial = {'inputs': inputs}
        utils.format_seconds_as_time(DurProxy(S, V), prec)
        return {'inputs': inputs}
    return body


def lemma_fraction_contract(chk):
    """LRA/LIA lemma closing Part B: if S = int(seconds), frac = seconds - S in [0,1), V = round(frac*1e8) (|V - frac*1e8| <= 1/2) and the
    text shows S + ceil_prec(trunc5(V/1e8)), then text >= seconds - 1e-5 - 5e-9 and text < seconds + 10**-prec + 5e-9."""
    for prec in range(0, 4):
        frac = z3.Real('frac')
        V = z3.Int('V')
        step = 10 ** (5 - prec)
        U5 = V / 1000
        Eo = (U5 + step - 1) / step
        text = z3.ToReal(Eo) / (10 ** prec)
        s = z3.Solver()
        s.add(frac >= 0, frac < 1, V >= 0, V - frac * 10 ** 8 <= z3.RealVal('1/2'), frac * 10 ** 8 - V <= z3.RealVal('1/2'))
        noise = z3.RealVal('1/100000') + z3.RealVal('5/1000000000')
        s.add(z3.Not(z3.And(text >= frac - noise, text < frac + z3.RealVal(1) / (10 ** prec) + z3.RealVal('5/1000000000'))))
        t = time.time()
        r = str(s.check())
        chk.count_query('z3-%s' % z3.get_version_string(), time.time() - t)
        chk.obligations += 1
        if r == 'unsat':
            chk.discharged += 1
        else:
            chk.inconclusive_note('fraction contract lemma prec=%d: %s %s' % (prec, r, s.model() if r == 'sat' else ''))


def body_hms(shape):
    """shape: tuple of (n_int_digits, n_frac_digits or None) per field, and separators"""
    fields, seps = shape

    def body(R):
        utils = sys.modules['athlib.utils']
        eng = E.cur()
        cells = []
        exact = z3.RealVal(0)
        allint = True
        for i, (ni, nf) in enumerate(fields):
            if i:
                cells.append(seps[i - 1])
            ic = digits(ni, 'h%d_' % i)
            cells += ic
            v = z3.ToReal(val_term(ic))
            if nf is not None:
                fc = digits(nf, 'q%d_' % i)
                cells += ['.'] + fc
                allint = False
                if nf:
                    v = v + z3.ToReal(val_term(fc)) / (10 ** nf)
            exact = exact * 60 + v
        t = _mk(cells)
        R.partial = {'inputs': {'t': t}}
        uniform = len(set(seps)) <= 1
        try:
            v = utils.parse_hms(t)
        except ValueError:
            if uniform:
                raise hc.PathFail('hms-exact', 'ValueError on a well-formed text')
            return {'inputs': {'t': t}, 'observe': [('athlib.parse_hms(t)', ('raises', 'ValueError'))]}
        except Exception as e:
            raise hc.PathFail('hms-exception', type(e).__name__)
        if uniform:
            if allint:
                if isinstance(v, SymFloat) or isinstance(v, float):
                    raise hc.PathFail('hms-exact', 'integers did not stay integers')
                vt = v.term if isinstance(v, SymInt) else z3.IntVal(v)
                eng.check(z3.ToReal(vt) == exact, 'hms-exact')
            else:
                vt = v.term if isinstance(v, (SymFloat, SymInt)) else realval(v)
                if isinstance(v, SymInt):
                    vt = z3.ToReal(vt)
                tol = z3.RealVal('1/1000000000')
                eng.check(z3.And(vt - exact <= tol * z3.If(exact > 1, exact, 1), exact - vt <= tol * z3.If(exact > 1, exact, 1)), 'hms-exact')
        return {'inputs': {'t': t}, 'observe': [('athlib.parse_hms(t)', v)]}
    return body


def body_arb(n):
    def body(R):
        utils = sys.modules['athlib.utils']
        t = _mk([symcell(ARB_ALPHABET, 'a%d' % i) for i in range(n)])
        R.partial = {'inputs': {'t': t}}
        try:
            v = utils.parse_hms(t)
        except ValueError:
            return {'inputs': {'t': t}, 'observe': [('athlib.parse_hms(t)', ('raises', 'ValueError'))]}
        except Exception as e:
            raise hc.PathFail('hms-exception', type(e).__name__)
        if not isinstance(v, (int, float, SymInt, SymFloat)) or isinstance(v, bool):
            raise hc.PathFail('hms-exception', 'returned %s' % type(v).__name__)
        return {'inputs': {'t': t}, 'observe': [('athlib.parse_hms(t)', v)]}
    return body


def worker(job):
    kind = job[0]
    res = JobResult()
    R = hc.Runner(res, plain(), 'athlib.utils', SCRIPTS, max_paths=200000, deadline=time.time() + job[-1])
    try:
        if kind == 'rup':
            R.func = 'athlib.round_up_str_num'
            R.explore(body_rup(*job[1:-1]), 'round_up_str_num int=%d dot=%s frac=%d prec=%d' % job[1:-1])
        elif kind == 'fmt':
            R.func = 'athlib.format_seconds_as_time'
            R.explore(body_fmt(*job[1:-1]), 'format_seconds_as_time %s prec=%d' % job[1:-1])
        elif kind == 'fmt-history':
            # the same clauses after an earlier format_seconds_as_time call with a duration of its own (fresh symbolic S, V) at
            # precision job[3]: the text must not depend on what was formatted before (memo tables, scratch attributes)
            R.func = 'athlib.format_seconds_as_time'
            R.prime_body = body_fmt_prime(job[3])
            R.explore(body_fmt(job[1], job[2]), 'format_seconds_as_time %s prec=%d after a call with prec=%d' % job[1:-1])
        elif kind == 'hms':
            R.func = 'athlib.parse_hms'
            R.explore(body_hms(job[1]), 'parse_hms %r' % (job[1],))
        elif kind == 'hms-history':
            # the same clauses after an earlier parse_hms call for a text of the sibling shape (same fields, the last one spelt with /
            # without a fraction) with digits of its own: the answer, its type included, must not depend on what was parsed before
            R.func = 'athlib.parse_hms'
            R.prime_body = body_hms(job[2])
            R.explore(body_hms(job[1]), 'parse_hms %r after parse_hms %r' % (job[1], job[2]))
        else:
            R.func = 'athlib.parse_hms'
            R.explore(body_arb(job[1]), 'parse_hms arbitrary text of %d cells' % job[1])
    except E.Budget as e:
        res.inconclusive.append('%r: %s' % (job[:-1], e))
    return res


def run(chk, only=None):
    hc.load_athlib()
    quick = chk.tier == 'quick'
    jobs = []
    budget = 200 if quick else 1500
    for ni in range(0, 5):
        for dot, nf in [(False, 0)] + [(True, n) for n in range(0, 8)]:
            if ni == 0 and not dot:
                continue
            for prec in range(0, 6):
                jobs.append(('rup', ni, dot, nf, prec, budget))
    for form in ('frac8', 'int'):
        for prec in range(0, 4):
            jobs.append(('fmt', form, prec, budget))
    for prec in range(0, 4):
        for pprec in ([prec] if quick else range(0, 4)):
            jobs.append(('fmt-history', 'frac8', prec, pprec, max(budget, 1500)))   # about 190 s each on an idle machine: never cut short by the quick budget
    fshapes = [(1, None), (2, None), (3, None), (2, 0), (1, 1), (2, 2), (2, 3)]
    if quick:
        fshapes = [(1, None), (2, None), (3, None), (2, 2), (1, 1)]
    for nfields in (1, 2, 3):
        for fs in itertools.product(fshapes, repeat=nfields):
            # fractions only in the last field in the quick tier
            if quick and any(f[1] is not None for f in fs[:-1]):
                continue
            for seps in itertools.product(':;', repeat=nfields - 1):
                jobs.append(('hms', (fs, seps), budget))
                if len(set(seps)) <= 1 and all(f[1] is None for f in fs[:-1]) and fs[-1][1] in (None, 1):
                    sib = fs[:-1] + ((fs[-1][0], 1 if fs[-1][1] is None else None),)
                    jobs.append(('hms-history', (fs, seps), (sib, seps), budget))
    for n in range(0, 5 if quick else 7):
        jobs.append(('arb', n, budget))
    if only:
        jobs = [j for j in jobs if j[0] == only]
    n_hist = sum(1 for j in jobs if j[0] == 'hms-history')
    chk.functions = ['athlib.utils.round_up_str_num', 'athlib.utils.format_seconds_as_time', 'athlib.utils.parse_hms', 'athlib.utils.str2num']
    chk.stubs = ["'%.8f' % x: the text denotes round(x*10**8) (correct rounding of CPython float formatting; ties may go either way) - symrun/dtoa.py",
                 'float arithmetic in the reals-with-monotone-rounding model (relative error 2**-53 per operation, integers exact); durations as reals in [0, 360000) over-approximate the doubles',
                 'float(text)/int(text) on digit cells = exact decimal value (correctly rounded for float)',
                 'repr(float) is NOT modelled: a change that routes a symbolic float through repr()/str() makes the run inconclusive (exit 2)']
    chk.bounds = {'round_up_str_num': 'integer part 0-4 digits (leading zeros included), optional point, 0-7 fraction digits, prec 0-5, maxDP default 5',
                  'format_seconds_as_time': 'seconds = k/1000 for 0 <= k < 3.6e8, any integer < 360000, any real in [0, 360000); prec 0-3',
                  'format_seconds_as_time_history': '%d (prec, earlier prec) pairs: one earlier format_seconds_as_time call with a duration of its own below one minute (fresh symbolic S in 0..59, any V), then the clauses' % sum(1 for j in jobs if j[0] == 'fmt-history'),
                  'parse_hms_history': '%d (shape, sibling shape) pairs: parse_hms on a text of the sibling shape (own symbolic digits) first, then the clauses' % n_hist,
                  'parse_hms': '1-3 fields of 1-3 digits with optional fraction of 0-3 digits, each separator : or ; (mixed included); arbitrary texts of up to %d cells over %r' % (4 if quick else 6, ARB_ALPHABET)}
    chk.outside = ['durations of 100 h and more; negative durations; non-ASCII digits; exponent / inf / nan / underscore texts']
    if not only:
        lemma_fraction_contract(chk)
    pool.run_jobs(chk, worker, jobs, chunksize=1)
    chk.extra['functions_loaded_through_hook'] = hc.functions_loaded()
