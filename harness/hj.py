"""Shared machinery for the high-jump properties (C02, C03, C08): one-step symbolic
execution of the real HighJumpCompetition from a symbolic pre-state.

Pre-state family "regular phase": n athletes (concrete bibs), H bar heights
(symbolic, strictly rising), per athlete L_j <= H result-card columns, every
column a symbolic attempt string (symbolic length 0-3, symbolic letters over
x o - r).  The representation invariant ties every flag of the real objects to
the cards (formulas below, written from the rule comments); it is *checked*:
every path's solver witness is rebuilt through the public API in a plain
process and compared field by field, and after every accepted call the flags
of the real object must again equal the formulas on the extended card
(inductive step), so histories of any length that stay inside the bounds are
covered without unrolling them.
"""
import itertools
import json
import sys
import time

import z3

from vlib import core
from harness import hc
from symrun import engine as E
from symrun.values import SymInt, SymBool, mkbool, symint
from symrun.shims.decimal_shim import SymDecimal

X, O, P, RT = 0, 1, 2, 3          # letter codes: x o - r
LETTERS = 'xo-r'
CAP = 4
ORDER = {'scheduled': 0, 'started': 1, 'jumpoff': 2, 'won': 2, 'finished': 3, 'drawn': 3}


# ------------------------------------------------------------------ symbolic attempt string
class AttStr(object):
    """attempt string of symbolic length n (0..4) with letter codes cs[0..3]"""
    _sx_symbolic = True

    def __init__(self, n, cs):
        self.n = n
        self.cs = list(cs)

    def _sx_len(self):
        return SymInt(self.n)

    def __add__(self, o):
        if not isinstance(o, str) or len(o) != 1 or o not in LETTERS:
            raise E.Unsupported('attempt string + %r' % (o,))
        code = LETTERS.index(o)
        if bool(mkbool(z3.simplify(self.n >= CAP))):
            raise E.Unsupported('attempt string longer than %d' % CAP)
        return AttStr(self.n + 1, [z3.If(self.n == i, z3.IntVal(code), self.cs[i]) for i in range(CAP)])
    __iadd__ = __add__

    def count(self, ch):
        code = LETTERS.index(ch)
        return SymInt(z3.Sum([z3.If(z3.And(self.n > i, self.cs[i] == code), 1, 0) for i in range(CAP)]))

    def endswith(self, ch):
        code = LETTERS.index(ch)
        return mkbool(z3.simplify(z3.Or([z3.And(self.n == i + 1, self.cs[i] == code) for i in range(CAP)])))

    def has(self, ch):
        code = LETTERS.index(ch)
        return z3.Or([z3.And(self.n > i, self.cs[i] == code) for i in range(CAP)])

    def __contains__(self, ch):
        return bool(mkbool(z3.simplify(self.has(ch))))

    def __bool__(self):
        return bool(mkbool(z3.simplify(self.n > 0)))

    def last(self):
        """letter code of the last letter (only meaningful when n > 0)"""
        t = self.cs[0]
        for i in range(1, CAP):
            t = z3.If(self.n == i + 1, self.cs[i], t)
        return t

    def __eq__(self, o):
        return mkbool(z3.simplify(att_eq(self, o)))

    def __ne__(self, o):
        return mkbool(z3.simplify(z3.Not(att_eq(self, o))))

    def __hash__(self):
        raise E.Unsupported('hash of symbolic attempt string')

    def __getattr__(self, name):
        raise E.Unsupported('str.%s on a symbolic attempt string' % name)

    def __repr__(self):
        return 'AttStr(n=%s)' % z3.simplify(self.n)


def att_terms(a):
    """(n, [c0..c3]) for an AttStr or a concrete str"""
    if isinstance(a, AttStr):
        return a.n, a.cs
    return z3.IntVal(len(a)), [z3.IntVal(LETTERS.index(a[i])) if i < len(a) else z3.IntVal(0) for i in range(CAP)]


def att_eq(a, b):
    na, ca = att_terms(a)
    nb, cb = att_terms(b)
    return z3.And([na == nb] + [z3.Implies(na > i, ca[i] == cb[i]) for i in range(CAP)])


def conc_att(model, a):
    if isinstance(a, str):
        return a
    n = model.eval(a.n, model_completion=True).as_long()
    return ''.join(LETTERS[model.eval(a.cs[i], model_completion=True).as_long() % 4] for i in range(n))


# ------------------------------------------------------------------ formulas: flags from cards (the invariant)
class CardModel(object):
    """z3 terms derived from a card (list of columns per athlete) and the heights - the representation invariant"""

    def __init__(self, cards, heights, H):
        self.cards = cards
        self.heights = heights           # list of z3 Int (cm)
        self.H = H
        self.n = len(cards)
        self.cf = []
        self.elim = []
        self.retired = []
        self.dismissed = []
        self.hci = []
        self.best = []
        self.fails_at = []
        self.fails_upto = []
        self.legal = []
        self.any_trial = z3.BoolVal(False)
        for j, card in enumerate(cards):
            cf = z3.IntVal(0)
            legal = []
            hci = z3.IntVal(-1)
            L = len(card)
            cum_fail = z3.IntVal(0)
            fails_at = z3.IntVal(0)
            fails_upto = z3.IntVal(0)
            retired = z3.BoolVal(False)
            for i, col in enumerate(card):
                n, cs = att_terms(col)
                lastc = col.last() if isinstance(col, AttStr) else (z3.IntVal(LETTERS.index(col[-1])) if col else z3.IntVal(0))
                islast = (i == L - 1)
                legal.append(z3.And(n >= (1 if islast else 0), n <= 3))
                for p in range(CAP):
                    legal.append(z3.Implies(n > p, z3.And(cs[p] >= 0, cs[p] <= 3)))
                    legal.append(z3.Implies(n > p + 1, cs[p] == X))          # only the last letter may be o, - or r
                nx = z3.Sum([z3.If(z3.And(n > p, cs[p] == X), 1, 0) for p in range(CAP)])
                ends_o = z3.And(n > 0, lastc == O)
                ends_r = z3.And(n > 0, lastc == RT)
                ends_x = z3.And(n > 0, lastc == X)
                legal.append(cf + nx <= 3)
                # reaching three consecutive failures, or retiring, ends the card
                legal.append(z3.Implies(z3.Or(cf + nx == 3, ends_r), z3.BoolVal(islast)))
                legal.append(z3.Implies(cf + nx == 3, z3.Or(ends_x, n == 0) if False else ends_x if True else True))
                cum_fail = cum_fail + nx
                hci = z3.If(ends_o, z3.IntVal(i), hci)
                fails_at = z3.If(ends_o, nx, fails_at)
                fails_upto = z3.If(ends_o, cum_fail, fails_upto)
                cf = z3.If(ends_o, z3.IntVal(0), cf + nx)
                if islast:
                    retired = ends_r
                self.any_trial = z3.Or(self.any_trial, n > 0)
            self.cf.append(cf)
            self.retired.append(retired)
            self.elim.append(z3.Or(cf >= 3, retired))
            if L and L == H:
                lc = card[-1].last() if isinstance(card[-1], AttStr) else z3.IntVal(LETTERS.index(card[-1][-1]))
                self.dismissed.append(z3.Or(cf >= 3, retired, lc == O, lc == P))
            else:
                self.dismissed.append(z3.Or(cf >= 3, retired))
            self.hci.append(hci)
            b = z3.IntVal(0)
            for i in range(L):
                b = z3.If(hci == i, heights[i], b)
            self.best.append(b)
            self.fails_at.append(fails_at)
            self.fails_upto.append(fails_upto)
            self.legal.append(z3.And(legal) if legal else z3.BoolVal(True))

    def key(self, j):
        none = self.hci[j] < 0
        group = z3.If(self.elim[j], z3.If(none, 3, 2), z3.If(none, 1, 0))
        return (group, -self.best[j], self.fails_at[j], self.fails_upto[j])

    def key_lt(self, a, b):
        ka, kb = self.key(a), self.key(b)
        t = z3.BoolVal(False)
        for x, y in reversed(list(zip(ka, kb))):
            t = z3.Or(x < y, z3.And(x == y, t))
        return t

    def key_eq(self, a, b):
        return z3.And([x == y for x, y in zip(self.key(a), self.key(b))])

    def place(self, j):
        return 1 + z3.Sum([z3.If(self.key_lt(k, j), 1, 0) for k in range(self.n) if k != j]) if self.n > 1 else z3.IntVal(1)

    def n_remaining(self):
        return z3.Sum([z3.If(e, 0, 1) for e in self.elim]) if self.n else z3.IntVal(0)

    def won(self):
        """exactly one athlete remains and, at some height, cleared it after/while all others had gone out at or before that height"""
        alts = []
        for a in range(self.n):
            others_out = z3.And([self.elim[k] for k in range(self.n) if k != a]) if self.n > 1 else z3.BoolVal(True)
            for i, col in enumerate(self.cards[a]):
                n, cs = att_terms(col)
                lastc = col.last() if isinstance(col, AttStr) else (z3.IntVal(LETTERS.index(col[-1])) if col else z3.IntVal(0))
                cond = [z3.Not(self.elim[a]), others_out, n > 0, lastc == O]
                for k in range(self.n):
                    if k != a:
                        cond.append(z3.BoolVal(len(self.cards[k]) - 1 <= i))
                alts.append(z3.And(cond))
        return z3.Or(alts) if alts else z3.BoolVal(False)


# ------------------------------------------------------------------ pre-state construction
BIBS = ['A', 'B', 'C', 'D']


class Pre(object):
    pass


def build_regular(hjmod, n, H, Ls, perm):
    """a real HighJumpCompetition whose fields are proxies satisfying the regular-phase invariant"""
    eng = E.cur()
    comp = hjmod.HighJumpCompetition()
    hs = []
    prev = z3.IntVal(0)
    for i in range(H):
        h = z3.Int(eng.fresh_name('h%d' % i))
        eng.add(z3.And(h > prev, h <= 400))
        hs.append(h)
        prev = h
    cards = []
    for j in range(n):
        card = []
        for i in range(Ls[j]):
            nn = z3.Int(eng.fresh_name('n_%s%d' % (BIBS[j], i)))
            cs = [z3.Int(eng.fresh_name('c_%s%d_%d' % (BIBS[j], i, p))) for p in range(CAP)]
            eng.add(z3.And(nn >= 0, nn <= 3))
            card.append(AttStr(nn, cs))
        cards.append(card)
    cm = CardModel(cards, hs, H)
    for j in range(n):
        eng.add(cm.legal[j])
    # regular phase: somebody is still in the competition (otherwise it would be finished / in a jump-off / drawn)
    if n:
        eng.add(z3.Or([z3.Not(e) for e in cm.elim]))
    if H == 0:
        state = 'scheduled'
    else:
        state = 'won' if bool(mkbool(z3.simplify(cm.won()))) else 'started'
    no_trials = not bool(mkbool(z3.simplify(cm.any_trial))) if n else True
    comp.state = state
    comp.heights = [SymDecimal(h, 2) for h in hs]
    comp.bar_height = comp.heights[-1] if H else hjmod.Decimal('0.00')
    comp.actions = []
    jumpers = []
    for j in range(n):
        jm = hjmod.Jumper(bib=BIBS[j], order=j + 1)
        jm.attempts_by_height = list(cards[j])
        jm.consecutive_failures = SymInt(cm.cf[j])
        jm.eliminated = mkbool(z3.simplify(cm.elim[j]))
        jm.dismissed = mkbool(z3.simplify(cm.dismissed[j]))
        jm.round_lim = 3
        jm.highest_cleared_index = SymInt(cm.hci[j])
        jm.highest_cleared = SymDecimal(cm.best[j], 2)
        jm._place = (j + 1) if no_trials else SymInt(cm.place(j))
        jumpers.append(jm)
        comp.jumpers.append(jm)
        comp.jumpers_by_bib[jm.bib] = jm
    order = list(range(n)) if no_trials else list(perm)
    if not no_trials:
        # ranked_jumpers is sorted by ranking key (ties in any order: the previous position is history)
        for a, b in zip(order, order[1:]):
            eng.add(z3.Not(cm.key_lt(b, a)))
    comp.ranked_jumpers = [jumpers[k] for k in order]
    pre = Pre()
    pre.comp, pre.cm, pre.cards, pre.hs, pre.n, pre.H, pre.Ls = comp, cm, cards, hs, n, H, Ls
    pre.state, pre.no_trials, pre.order = state, no_trials, order
    return pre


# Which column the implementation remembers as "the" best column when the same height is cleared twice (possible only in a
# jump-off, where the bar may return to an earlier height): 'first' or 'last'.  It is an internal field (highest_cleared_index), not
# an observable of any property, so the pre-state families follow whatever the code under test does (probed concretely once per
# run, probe_hci_policy) - the observable clauses (best height, places from the cards alone) then judge the consequences.
HCI_POLICY = 'first'

HCI_PROBE = r"""
import sys
from decimal import Decimal
from athlib.highjump import HighJumpCompetition
c = HighJumpCompetition()
for b in 'AB':
    c.add_jumper(bib=b)
c.set_bar_height(Decimal('1.80')); c.cleared('A'); c.cleared('B')
c.set_bar_height(Decimal('1.85'))
for i in range(3):
    c.failed('A'); c.failed('B')
assert c.state == 'jumpoff', c.state
c.set_bar_height(Decimal('1.80')); c.cleared('A')
print('HCI', c.jumpers_by_bib['A'].highest_cleared_index)
"""


def probe_hci_policy(plain):
    """'last' if a clearance at a bar equal to the best moves highest_cleared_index to the later column, else 'first'"""
    global HCI_POLICY
    code, out = plain.run_script(HCI_PROBE)
    HCI_POLICY = 'last' if 'HCI 2' in out else 'first'
    return HCI_POLICY


def best_greatest(card, heights):
    """(best height, index) = the greatest height among the columns that end with o; (0, -1) if none.  Heights need not rise.
    Among several columns of that height the index follows HCI_POLICY."""
    best = z3.IntVal(0)
    idx = z3.IntVal(-1)
    for i, col in enumerate(card):
        n, cs = att_terms(col)
        lastc = col.last() if isinstance(col, AttStr) else (z3.IntVal(LETTERS.index(col[-1])) if col else z3.IntVal(0))
        ends_o = z3.And(n > 0, lastc == O)
        better = z3.And(ends_o, z3.Or(idx < 0, (heights[i] >= best) if HCI_POLICY == 'last' else (heights[i] > best)))
        best = z3.If(better, heights[i], best)
        idx = z3.If(better, z3.IntVal(i), idx)
    return best, idx


def build_jumpoff(hjmod, n, H, Ls, started, perm, prior=None):
    """pre-state inside a jump-off at its first bar position.  Regular part: H rising heights, legal cards on which every athlete
    is out and at least two are tied for first (countback), at least one of them not retired -> those are re-instated
    (one attempt per height).  started=False: the jump-off bar has not been set yet; started=True: it has been set (any height,
    also lower than before) and each participant has had at most its one attempt; at least one participant is still to jump.
    prior='x' / 'o': a first jump-off height (any bar) has been completed before, with every participant failing resp. clearing it, so the
    tie stands and the pre-state is at the second jump-off height (mixed, passed or retired first columns are outside this family)."""
    eng = E.cur()
    comp = hjmod.HighJumpCompetition()
    hs = []
    prev = z3.IntVal(0)
    for i in range(H):
        h = z3.Int(eng.fresh_name('h%d' % i))
        eng.add(z3.And(h > prev, h <= 400))
        hs.append(h)
        prev = h
    cards = []
    for j in range(n):
        card = []
        for i in range(Ls[j]):
            nn = z3.Int(eng.fresh_name('n_%s%d' % (BIBS[j], i)))
            cs = [z3.Int(eng.fresh_name('c_%s%d_%d' % (BIBS[j], i, p))) for p in range(CAP)]
            eng.add(z3.And(nn >= 0, nn <= 3))
            card.append(AttStr(nn, cs))
        cards.append(card)
    cm = CardModel(cards, hs, H)
    for j in range(n):
        eng.add(cm.legal[j])
        eng.add(cm.elim[j])                      # everybody went out in the regular phase
    top = [z3.And([z3.Not(cm.key_lt(k, j)) for k in range(n) if k != j]) for j in range(n)]
    part = [z3.And(top[j], z3.Not(cm.retired[j])) for j in range(n)]
    eng.add(z3.Sum([z3.If(t, 1, 0) for t in top]) >= 2)
    eng.add(z3.Or(part))
    if prior == 'o':
        # a lone participant who clears a jump-off height has won: the jump-off goes on only if at least two cleared
        eng.add(z3.Sum([z3.If(t, 1, 0) for t in part]) >= 2)
    is_part = [bool(mkbool(z3.simplify(p))) for p in part]          # decided per path (forks)
    hjo = None
    heights_all = list(hs)
    jo_cols = [None] * n
    if prior:
        hjo1 = z3.Int(eng.fresh_name('hjo1'))
        eng.add(z3.And(hjo1 > 0, hjo1 <= 400))
        heights_all.append(hjo1)
    if started:
        hjo = z3.Int(eng.fresh_name('hjo'))
        eng.add(z3.And(hjo > 0, hjo <= 400))
        heights_all.append(hjo)
        pending = []
        for j in range(n):
            if is_part[j]:
                nn = z3.Int(eng.fresh_name('njo_%s' % BIBS[j]))
                c0 = z3.Int(eng.fresh_name('cjo_%s' % BIBS[j]))
                eng.add(z3.And(nn >= 0, nn <= 1, c0 >= 0, c0 <= 3))
                jo_cols[j] = AttStr(nn, [c0, z3.IntVal(0), z3.IntVal(0), z3.IntVal(0)])
                pending.append(nn == 0)
        eng.add(z3.Or(pending))                  # somebody is still to jump at this height
    comp.state = 'jumpoff'
    comp.heights = [SymDecimal(h, 2) for h in heights_all]
    comp.bar_height = comp.heights[-1]
    comp.actions = []
    jumpers = []
    full_cards = []
    keys_now = []
    any_jo_trial = z3.BoolVal(False)
    for j in range(n):
        jm = hjmod.Jumper(bib=BIBS[j], order=j + 1)
        card = list(cards[j])
        jumped = z3.BoolVal(False)
        if prior and is_part[j]:
            while len(card) < H:
                card.append('')
            card.append(prior)
        if started and is_part[j]:
            jumped_here = bool(mkbool(z3.simplify(jo_cols[j].n == 1)))
            if jumped_here:
                while len(card) < H + (1 if prior else 0):
                    card.append('')
                card.append(jo_cols[j])
                any_jo_trial = z3.BoolVal(True)
        else:
            jumped_here = False
        full_cards.append(card)
        jm.attempts_by_height = list(card)
        if is_part[j]:
            jm.round_lim = 1
            if jumped_here:
                c0 = jo_cols[j].cs[0]
                elim = z3.Or(c0 == X, c0 == RT)
                jm.eliminated = mkbool(z3.simplify(elim))
                jm.dismissed = True
                jm.consecutive_failures = SymInt(z3.If(c0 == X, 1, 0))
            else:
                jm.eliminated = False
                jm.dismissed = (not started)
                jm.consecutive_failures = 0
        else:
            jm.round_lim = 3
            jm.eliminated = True
            jm.dismissed = True
            jm.consecutive_failures = SymInt(cm.cf[j])
        best, idx = best_greatest(card, heights_all)
        jm.highest_cleared = SymDecimal(best, 2)
        jm.highest_cleared_index = SymInt(idx)
        jumpers.append(jm)
        comp.jumpers.append(jm)
        comp.jumpers_by_bib[jm.bib] = jm
    # places: the ranking made after the latest trial.  Before any jump-off trial that is the entry ranking (everybody out).
    def key_now(j, entry):
        jm = jumpers[j]
        el = z3.BoolVal(True) if entry else t_bool(jm.eliminated)
        best, idx = best_greatest(full_cards[j], heights_all)
        # failures at / up to the best column
        fa = z3.IntVal(0)
        fu = z3.IntVal(0)
        cum = z3.IntVal(0)
        for i, col in enumerate(full_cards[j]):
            nn, cs = att_terms(col)
            nx = z3.Sum([z3.If(z3.And(nn > p, cs[p] == X), 1, 0) for p in range(CAP)])
            cum = cum + nx
            fa = z3.If(idx == i, nx, fa)
            fu = z3.If(idx == i, cum, fu)
        none = idx < 0
        return (z3.If(el, z3.If(none, 3, 2), z3.If(none, 1, 0)), -best, fa, fu)
    # (after a first jump-off height that everybody failed, the latest ranking was again made with everybody out; after one that
    # everybody cleared it was made with the participants still in)
    entry = (not bool(mkbool(z3.simplify(any_jo_trial)))) and prior != 'o'
    ks = [key_now(j, entry) for j in range(n)]

    def lt(a, b):
        t = z3.BoolVal(False)
        for x, y in reversed(list(zip(ks[a], ks[b]))):
            t = z3.Or(x < y, z3.And(x == y, t))
        return t
    for j in range(n):
        jumpers[j]._place = SymInt(1 + z3.Sum([z3.If(lt(k, j), 1, 0) for k in range(n) if k != j]))
    order = list(perm)
    for a, b in zip(order, order[1:]):
        eng.add(z3.Not(lt(b, a)))
    comp.ranked_jumpers = [jumpers[k] for k in order]
    pre = Pre()
    pre.comp, pre.cm, pre.cards, pre.hs, pre.n, pre.H, pre.Ls = comp, cm, full_cards, heights_all, n, len(heights_all), Ls
    pre.state, pre.no_trials, pre.order = 'jumpoff', False, order
    pre.is_part, pre.started, pre.jo_cols, pre.Hreg, pre.prior = is_part, started, jo_cols, H, prior
    return pre


# ------------------------------------------------------------------ observables
def t_bool(v):
    return v.term if isinstance(v, SymBool) else z3.BoolVal(bool(v))


def t_int(v):
    return v.term if isinstance(v, SymInt) else z3.IntVal(int(v))


def t_dec(v):
    """height in centimetres as z3 Int"""
    if isinstance(v, SymDecimal):
        if v.scale == 2:
            return v.num if not isinstance(v.num, int) else z3.IntVal(v.num)
        if isinstance(v.num, int):
            return z3.IntVal(v.num * 10 ** (2 - v.scale)) if v.scale < 2 else z3.IntVal(v.num // 10 ** (v.scale - 2))
        raise E.Unsupported('height with scale %d' % v.scale)
    import decimal
    return z3.IntVal(int(decimal.Decimal(v) * 100))


def snapshot(comp):
    """observable state as a dict of z3 terms / concrete values"""
    snap = {'state': comp.state, 'heights': [t_dec(h) for h in comp.heights], 'bar': t_dec(comp.bar_height),
            'n_actions': len(comp.actions), 'actions': list(comp.actions), 'jumpers': []}
    for jm in comp.jumpers:
        snap['jumpers'].append({
            'bib': jm.bib, 'cols': list(jm.attempts_by_height), 'best': t_dec(jm.highest_cleared), 'hci': t_int(jm.highest_cleared_index),
            'place': t_int(jm._place), 'eliminated': t_bool(jm.eliminated), 'dismissed': t_bool(jm.dismissed),
            'round_lim': t_int(jm.round_lim), 'cf': t_int(jm.consecutive_failures)})
    snap['ranked'] = [jm.bib for jm in comp.ranked_jumpers]
    return snap


def snap_equal(a, b, fields=('state', 'heights', 'bar', 'cols', 'best', 'hci', 'place', 'eliminated', 'dismissed', 'round_lim', 'cf', 'n_actions')):
    """z3 Bool: two snapshots agree on the given fields (False at once on a concrete difference)"""
    parts = []
    if 'state' in fields and a['state'] != b['state']:
        return z3.BoolVal(False)
    if 'heights' in fields:
        if len(a['heights']) != len(b['heights']):
            return z3.BoolVal(False)
        parts += [x == y for x, y in zip(a['heights'], b['heights'])]
    if 'bar' in fields:
        parts.append(a['bar'] == b['bar'])
    if 'n_actions' in fields and a['n_actions'] != b['n_actions']:
        return z3.BoolVal(False)
    if len(a['jumpers']) != len(b['jumpers']):
        return z3.BoolVal(False)
    for ja, jb in zip(a['jumpers'], b['jumpers']):
        if ja['bib'] != jb['bib']:
            return z3.BoolVal(False)
        if 'cols' in fields:
            if len(ja['cols']) != len(jb['cols']):
                return z3.BoolVal(False)
            parts += [att_eq(x, y) for x, y in zip(ja['cols'], jb['cols'])]
        for f in ('best', 'hci', 'place', 'eliminated', 'dismissed', 'round_lim', 'cf'):
            if f in fields:
                parts.append(ja[f] == jb[f])
    return z3.And(parts) if parts else z3.BoolVal(True)


def conc_snapshot(model, snap):
    ev = lambda t: model.eval(t, model_completion=True)
    out = {'state': snap['state'], 'heights': [ev(h).as_long() for h in snap['heights']], 'bar': ev(snap['bar']).as_long(),
           'ranked': snap['ranked'], 'jumpers': []}
    for j in snap['jumpers']:
        out['jumpers'].append({'bib': j['bib'], 'cols': [conc_att(model, c) for c in j['cols']], 'best': ev(j['best']).as_long(), 'hci': ev(j['hci']).as_long(),
                               'place': ev(j['place']).as_long(), 'eliminated': z3.is_true(ev(j['eliminated'])), 'dismissed': z3.is_true(ev(j['dismissed'])),
                               'round_lim': ev(j['round_lim']).as_long(), 'cf': ev(j['cf']).as_long()})
    return out


# ------------------------------------------------------------------ calls
TRIALS = {'cleared': 'o', 'failed': 'x', 'passed': '-', 'retired': 'r'}


def apply_call(comp, hjmod, method, arg):
    """-> ('ok', None) | ('refused', exc) | ('error', exc)"""
    try:
        if method == 'add_jumper':
            comp.add_jumper(bib=arg)
        elif method == 'set_bar_height':
            comp.set_bar_height(arg)
        else:
            getattr(comp, method)(arg)
        return 'ok', None
    except hjmod.RuleViolation as e:
        return 'refused', e
    except Exception as e:
        return 'error', e


def legal_term(pre, method, arg):
    """the rules of the property text as a z3 Bool over the pre-state cards: may this call be accepted?"""
    cm = pre.cm
    if method == 'add_jumper':
        return z3.BoolVal(pre.state == 'scheduled' and arg not in BIBS[:pre.n])
    if method == 'set_bar_height':
        ok_state = pre.state in ('scheduled', 'started', 'won', 'jumpoff')
        last = pre.hs[-1] if pre.H else z3.IntVal(0)
        return z3.And(z3.BoolVal(ok_state), z3.BoolVal(pre.state == 'jumpoff') if pre.state == 'jumpoff' else t_dec(arg) > last)
    j = BIBS.index(arg)
    if pre.state == 'jumpoff':
        # one attempt per height for the athletes tied for first, once the jump-off bar is set
        if not pre.started or not pre.is_part[j]:
            return z3.BoolVal(False)
        return pre.jo_cols[j].n == 0
    if pre.state not in ('started', 'won'):
        return z3.BoolVal(False)
    conds = [z3.Not(cm.elim[j])]
    if pre.Ls[j] == pre.H and pre.H:
        col = pre.cards[j][-1]
        lc = col.last()
        conds.append(z3.Not(z3.Or(lc == O, lc == P)))       # already cleared or passed this height
        conds.append(col.n < 3)
    if pre.state == 'won':
        conds.append(cm.place(j) == 1 if not pre.no_trials else z3.BoolVal(j == 0))
    return z3.And(conds)


def expected_cards(pre, method, arg):
    """cards after an accepted call"""
    cards = [list(c) for c in pre.cards]
    if method in TRIALS:
        j = BIBS.index(arg)
        while len(cards[j]) < pre.H:
            cards[j].append('')
        cards[j][-1] = cards[j][-1] + TRIALS[method] if isinstance(cards[j][-1], AttStr) else cards[j][-1] + TRIALS[method]
    elif method == 'add_jumper':
        cards.append([])
    return cards


# ------------------------------------------------------------------ concrete oracle + replay script (plain library)
ORACLE_SRC = r'''
import sys, json
from decimal import Decimal
from athlib.highjump import HighJumpCompetition
from athlib.exceptions import RuleViolation
TR = {'o': 'cleared', 'x': 'failed', '-': 'passed', 'r': 'retired'}

def build(pre):
    """reach the pre-state through the public API: athletes, then every height with the trials in round-robin order"""
    c = HighJumpCompetition()
    bibs = [j['bib'] for j in pre['jumpers']]
    for i, b in enumerate(bibs):
        c.add_jumper(bib=b, order=i + 1)
    for i, h in enumerate(pre['heights']):
        c.set_bar_height(Decimal(h) / 100)
        list(c.trials)          # an observer reads the trial list at every new height (reading must not change what is read later)
        for a in range(3):
            for j in pre['jumpers']:
                col = j['cols'][i] if i < len(j['cols']) else ''
                if len(col) > a:
                    getattr(c, TR[col[a]])(j['bib'])
    return c

def snap(c):
    return {'state': c.state, 'heights': [int(h * 100) for h in c.heights], 'bar': int(c.bar_height * 100),
            'jumpers': [{'bib': j.bib, 'cols': list(j.attempts_by_height), 'best': int(j.highest_cleared * 100), 'hci': j.highest_cleared_index,
                         'place': j._place, 'eliminated': bool(j.eliminated), 'dismissed': bool(j.dismissed), 'round_lim': j.round_lim,
                         'cf': j.consecutive_failures} for j in c.jumpers],
            'n_actions': len(c.actions)}

def public(s):
    """what a user can observe (places of unplaced athletes are hidden)"""
    return {'state': s['state'], 'heights': s['heights'], 'bar': s['bar'],
            'jumpers': [{'bib': j['bib'], 'cols': [x for x in j['cols']], 'best': j['best'], 'place': (j['place'] if j['hci'] >= 0 else ''),
                         'eliminated': j['eliminated']} for j in s['jumpers']]}

def same_pre(got, want):
    for f in ('state', 'heights', 'bar'):
        if got[f] != want[f]: return 'pre-state %s: reached %r, modelled %r' % (f, got[f], want[f])
    for g, w in zip(got['jumpers'], want['jumpers']):
        for f in ('cols', 'best', 'hci', 'place', 'eliminated', 'dismissed', 'round_lim', 'cf'):
            if g[f] != w[f]: return 'pre-state %s.%s: reached %r, modelled %r' % (g['bib'], f, g[f], w[f])
    return None

def call(c, m, a):
    try:
        if m == 'add_jumper': c.add_jumper(bib=a)
        elif m == 'set_bar_height': c.set_bar_height(Decimal(a) / 100)
        else: getattr(c, m)(a)
        return 'ok'
    except RuleViolation:
        return 'refused'
    except Exception as e:
        return 'error:' + type(e).__name__

def keys(s):
    """countback key of every athlete from the cards alone (greatest height cleared, failures at it, failures up to it)"""
    out = []
    for j in s['jumpers']:
        best, fa, fu, cum = None, 0, 0, 0
        cf = 0
        retired = False
        for i, col in enumerate(j['cols']):
            nx = col.count('x')
            cum += nx
            if col.endswith('o'):
                h = s['heights'][i]
                if best is None or h > best:
                    best, fa, fu = h, nx, cum
                cf = 0
            else:
                cf += nx
            if col.endswith('r'): retired = True
        out.append({'bib': j['bib'], 'best': best, 'fa': fa, 'fu': fu, 'out': cf >= 3 or retired, 'retired': retired})
    return out

def countback_places(s):
    ks = keys(s)
    def k(x): return (0 if x['best'] is not None else 1, -(x['best'] or 0), x['fa'], x['fu'])
    return {x['bib']: (1 + sum(1 for y in ks if k(y) < k(x))) if x['best'] is not None else '' for x in ks}

def legal(s, m, a):
    """the rules of the property text on the cards of a regular-phase state"""
    bibs = [j['bib'] for j in s['jumpers']]
    if m == 'add_jumper': return s['state'] == 'scheduled' and a not in bibs
    if m == 'set_bar_height':
        return s['state'] in ('scheduled', 'started', 'won', 'jumpoff') and (s['state'] == 'jumpoff' or a > (s['heights'][-1] if s['heights'] else 0))
    if s['state'] not in ('started', 'won'): return False
    ks = {x['bib']: x for x in keys(s)}
    j = [x for x in s['jumpers'] if x['bib'] == a][0]
    if ks[a]['out']: return False
    if len(j['cols']) == len(s['heights']) and j['cols']:
        col = j['cols'][-1]
        if col.endswith('o') or col.endswith('-') or len(col) >= 3: return False
    if s['state'] == 'won':
        rest = [b for b in bibs if not ks[b]['out']]
        return rest == [a]
    return True
'''

REPLAY = ORACLE_SRC.replace('{', '{{').replace('}', '}}') + r'''
D = json.loads({data})
pre = D['pre']

def probe_next_calls(c, s, history):
    """from a concrete regular-phase state: is any next call accepted / refused against the rules on the cards?"""
    if s['state'] not in ('scheduled', 'started', 'won'):
        return None
    cands = [(mm, j['bib']) for j in s['jumpers'] for mm in TR.values()] + [('set_bar_height', s['bar'] + 1), ('set_bar_height', s['bar'])]
    for (m2, a2) in cands:
        c2 = HighJumpCompetition()
        for (mm, aa) in history:
            call(c2, mm, aa)
        want2 = legal(s, m2, a2)
        before = snap(c2)
        r2 = call(c2, m2, a2)
        if r2.startswith('error'):
            return 'after %r the call %s(%r) raised %s' % (history[-3:], m2, a2, r2)
        if (r2 == 'ok') != want2:
            return 'after the history %r the call %s(%r) is %s but the rules on the cards say %s' % (history, m2, a2, r2, 'allowed' if want2 else 'forbidden')
        if r2 == 'refused' and snap(c2) != before:
            return 'after the history %r the refused call %s(%r) changed the state' % (history, m2, a2)
    return None

def build_checked(pre):
    """replay the card through the public API; every legal trial must be accepted and the rules must hold at every step"""
    c = HighJumpCompetition()
    history = []
    def do(m, a):
        r = call(c, m, a)
        history.append((m, a))
        return r
    for i, j in enumerate(pre['jumpers']):
        c.add_jumper(bib=j['bib'], order=i + 1)
        history.append(('add_jumper', j['bib']))
    for i, h in enumerate(pre['heights']):
        if do('set_bar_height', h) != 'ok': return c, 'legal bar height %r refused after %r' % (h, history[:-1])
        for a in range(3):
            for j in pre['jumpers']:
                col = j['cols'][i] if i < len(j['cols']) else ''
                if len(col) > a:
                    if do(TR[col[a]], j['bib']) != 'ok': return c, 'legal trial %r refused after %r' % (history[-1], history[:-1])
    return c, None

c = build(pre)
s0 = snap(c)
bad = same_pre(s0, pre)
if bad:
    # the real object does not carry the flags the cards imply: visible to a user?  (rebuild step by step and probe the next calls)
    c3, why = build_checked(pre)
    if why is None:
        hist = [('add_jumper', j['bib']) for j in pre['jumpers']]
        cc = HighJumpCompetition()
        for (mm, aa) in hist: call(cc, mm, aa)
        why = None
        steps = []
        for i, h in enumerate(pre['heights']):
            steps.append(('set_bar_height', h))
            for a in range(3):
                for j in pre['jumpers']:
                    col = j['cols'][i] if i < len(j['cols']) else ''
                    if len(col) > a: steps.append((TR[col[a]], j['bib']))
        for st in steps:
            call(cc, *st); hist.append(st)
            why = probe_next_calls(cc, snap(cc), list(hist))
            if why: break
    if why:
        print(json.dumps({{'clause': 'acceptance', 'violation': why}})[:1500]); sys.exit(1)
    # not visible in what is accepted: are the standings of the real object against the cards (C03 clauses), now or after the job's call?
    cc = build(pre)
    for stage in ['pre'] + [tuple(x) for x in D['calls']]:
        if stage != 'pre':
            call(cc, stage[0], stage[1])
        sx = snap(cc)
        for j, k in zip(sx['jumpers'], keys(sx)):
            if j['best'] != (k['best'] or 0): why = '%s best %r but greatest height cleared is %r (after %r)' % (j['bib'], j['best'], k['best'], stage)
        if sx['state'] in ('won', 'finished', 'drawn') and all(j['round_lim'] == 3 for j in sx['jumpers']):
            want_p = countback_places(sx)
            got_p = {{j['bib']: (j['place'] if j['hci'] >= 0 else '') for j in sx['jumpers']}}
            if got_p != want_p: why = 'state %s: places %r but countback on the cards %r gives %r' % (sx['state'], got_p, [j['cols'] for j in sx['jumpers']], want_p)
        if why: break
    if why:
        print(json.dumps({{'clause': 'places', 'violation': why}})[:1500]); sys.exit(1)
    print('NOT-REACHABLE-AS-MODELLED', bad); sys.exit(3)
clause = D['clause']
calls = D['calls']
ORD = {{'scheduled': 0, 'started': 1, 'jumpoff': 2, 'won': 2, 'finished': 3, 'drawn': 3}}
viol = None
if clause == 'commute':
    (m1, a1), (m2, a2) = calls
    c2 = build(pre)
    r1 = (call(c, m1, a1), call(c, m2, a2))
    r2 = (call(c2, m2, a2), call(c2, m1, a1))
    p1, p2 = public(snap(c)), public(snap(c2))
    if r1 != (r2[1], r2[0]): viol = 'acceptance depends on the order: %r vs %r' % (r1, r2)
    elif r1 == ('ok', 'ok') and p1 != p2: viol = 'different outcome: %r vs %r' % (p1, p2)
else:
    for (m, a) in calls[:-1]:
        call(c, m, a)
    s_before = snap(c)
    acts_before = list(c.actions)
    m, a = calls[-1]
    want = legal(s_before, m, a) if s_before['state'] in ('scheduled', 'started', 'won') else None
    jo = D.get('jo')
    if s_before['state'] == 'jumpoff' and jo is not None and len(calls) == 1:
        if m == 'set_bar_height': want = True
        elif m == 'add_jumper': want = False
        else:
            jj = [x for x in s_before['jumpers'] if x['bib'] == a][0]
            want = bool(jo['started']) and a in jo['participants'] and (len(jj['cols']) < len(s_before['heights']) or jj['cols'][-1] == '')
    r = call(c, m, a)
    s_after = snap(c)
    if clause == 'refusal':
        if r.startswith('error'): viol = 'refused with %s instead of RuleViolation' % r
        elif r == 'refused' and (s_after != s_before or list(c.actions) != acts_before): viol = 'refused call changed the state: %r -> %r' % (s_before, s_after)
    elif clause == 'acceptance':
        if want is not None and (r == 'ok') != want: viol = 'call %s(%r) %s but the rules say %s' % (m, a, r, 'allowed' if want else 'forbidden')
    elif clause == 'log':
        if r == 'ok' and list(c.actions)[len(acts_before):] not in ([(m, a)], [(m, Decimal(a) / 100)] if m == 'set_bar_height' else None, [(m, dict(bib=a))] if m == 'add_jumper' else None):
            viol = 'log grew by %r' % (list(c.actions)[len(acts_before):],)
    elif clause == 'state-order':
        if r == 'ok' and ORD[s_after['state']] < ORD[s_before['state']]: viol = 'state went from %s to %s' % (s_before['state'], s_after['state'])
        if r == 'ok' and s_before['state'] in ('finished', 'drawn'): viol = 'accepted in %s' % s_before['state']
    elif clause == 'best':
        for j, k in zip(s_after['jumpers'], keys(s_after)):
            if j['best'] != (k['best'] or 0): viol = '%s best %r but greatest height cleared is %r' % (j['bib'], j['best'], k['best'])
    elif clause == 'places':
        want_p = countback_places(s_after)
        got_p = {{j['bib']: (j['place'] if j['hci'] >= 0 else '') for j in s_after['jumpers']}}
        jo = any(j['round_lim'] == 1 for j in s_after['jumpers'])
        if r == 'ok' and not jo and got_p != want_p: viol = 'places %r but countback on the cards gives %r' % (got_p, want_p)
    elif clause == 'finished-tie':
        firsts = [j['bib'] for j in s_after['jumpers'] if j['place'] == 1 and j['hci'] >= 0]
        if s_after['state'] == 'finished' and len(firsts) > 1: viol = 'finished with a tie for first: %r' % firsts
    elif clause == 'jumpoff-result':
        jo = D.get('jo') or {{}}
        if s_after['state'] == 'finished' and jo:
            firsts = [j['bib'] for j in s_after['jumpers'] if j['place'] == 1]
            surv = [j['bib'] for j in s_after['jumpers'] if j['bib'] in jo['participants'] and not j['eliminated']]
            ks = keys(pre)
            def k(x): return (0 if x['best'] is not None else 1, -(x['best'] or 0), x['fa'], x['fu'])
            topk = min(k(x) for x in ks)
            nontied = [x['bib'] for x in ks if k(x) != topk]
            pl = {{j['bib']: j['place'] for j in s_after['jumpers']}}
            if len(firsts) != 1 or (surv and firsts != surv[:1] and len(surv) == 1): viol = 'first place %r, jump-off survivor %r' % (firsts, surv)
            for p_ in jo['participants']:
                for q in nontied:
                    if not pl[p_] < pl[q]: viol = 'participant %s (place %r) not ahead of %s (place %r) who was not tied for first' % (p_, pl[p_], q, pl[q])
    elif clause == 'inv':
        if r == 'ok':
            hist = [('add_jumper', j['bib']) for j in pre['jumpers']]
            for i, h in enumerate(pre['heights']):
                hist.append(('set_bar_height', h))
                for a_ in range(3):
                    for j in pre['jumpers']:
                        col = j['cols'][i] if i < len(j['cols']) else ''
                        if len(col) > a_: hist.append((TR[col[a_]], j['bib']))
            hist += [tuple(x) for x in calls]
            viol = probe_next_calls(c, s_after, hist)
    elif clause == 'tie-order':
        # two histories that reach the same cards with a different order among equally ranked athletes: the round-robin order and its reverse
        def build_rev(pre):
            c = HighJumpCompetition()
            for i, j in enumerate(pre['jumpers']): c.add_jumper(bib=j['bib'], order=i + 1)
            for i, h in enumerate(pre['heights']):
                c.set_bar_height(Decimal(h) / 100)
                for a_ in range(3):
                    for j in reversed(pre['jumpers']):
                        col = j['cols'][i] if i < len(j['cols']) else ''
                        if len(col) > a_: getattr(c, TR[col[a_]])(j['bib'])
            return c
        cr = build_rev(pre)
        if public(snap(cr)) == public(s_before):
            r2 = call(cr, m, a)
            if r2 != r or (r == 'ok' and public(snap(cr)) != public(s_after)):
                viol = 'same cards reached in round-robin and in reverse order, then %s(%r): %r vs %r' % (m, a, public(s_after), public(snap(cr)))
    elif clause == 'replay':
        # C08 on the concrete witness: the action log rebuilds the competition; so does the exported card (explicit passes aside)
        c2 = c.from_actions()
        if public(snap(c2)) != public(s_after): viol = 'from_actions(actions) differs: %r vs %r' % (public(snap(c2)), public(s_after))
        elif [tuple(map(str, t)) for t in c.trials] != [tuple(map(str, t)) for t in c2.trials]:
            viol = 'trials of the live competition (read at every new height while it ran) differ from those of from_actions(actions): %r vs %r' % (list(c.trials), list(c2.trials))
        elif not any('-' in col for j in s_after['jumpers'] for col in j['cols']):
            try:
                m = c.to_matrix()
                c3 = HighJumpCompetition.from_matrix(m)
                p3, p0 = public(snap(c3)), public(s_after)
                if (p3['state'], p3['heights'], [(j['bib'], j['cols'], j['best'], j['place']) for j in sorted(p3['jumpers'], key=lambda x: x['bib'])]) != \
                   (p0['state'], p0['heights'], [(j['bib'], [x for x in j['cols']], j['best'], j['place']) for j in sorted(p0['jumpers'], key=lambda x: x['bib'])]):
                    viol = 'from_matrix(to_matrix()) differs: %r vs %r' % (p3, p0)
            except RuleViolation as e:
                viol = 'from_matrix(to_matrix()) refused: %s' % e
    elif clause == 'transition':
        pass
print(json.dumps({{'clause': clause, 'calls': calls, 'pre': public(pre), 'violation': viol}})[:1500])
sys.exit(1 if viol else 0)
'''
