"""C10 - every valid event code can be sorted, measured and classified without error.

Same symbolic templates as C07.  On each template the real discipline_sort_key,
text_discipline_sort_key, get_distance, get_duration_event_time, unit_name and
AgeGrader.event_code_to_kind run on the symbolic string; totality is "no
exception on any feasible path", ordering clauses are z3 obligations between
the returned terms and terms the harness derives from the matched digits.
Pairs of templates exercise sort_by_discipline and text-key/tuple-key agreement.
"""
import sys
import time
import random

import z3

from vlib import core, pool
from vlib.pool import JobResult
from harness import hc
from harness.C07 import mk_string, classify
plain = hc.plain
from symrun import engine as E, templates as T
from symrun.values import SymInt, SymFloat, mkbool
from symrun.strings import SymStr, Cell, symcell, cell_test, parse_int, _mk

_PRE = 'import sys, athlib\nfrom athlib import codes\nfrom athlib.athlon_score import unit_name\nfrom athlib.wma.agegrader import AgeGrader\ns = {s}\n'
_FUNCS = ("F = dict(discipline_sort_key=athlib.discipline_sort_key, text_discipline_sort_key=athlib.text_discipline_sort_key,\n"
          "         get_distance=athlib.get_distance, get_duration_event_time=athlib.utils.get_duration_event_time, unit_name=unit_name,\n"
          "         event_code_to_kind=AgeGrader.event_code_to_kind)\n")
SCRIPTS = {
    'raises': _PRE + _FUNCS + (
        "bad = []\nok = athlib.check_event_code(s) is not None\n"
        "for n, f in F.items():\n"
        "    if n == 'event_code_to_kind' and not any(p.match(s) for p in (codes.PAT_THROWS, codes.PAT_JUMPS, codes.PAT_TRACK, codes.PAT_ROAD)):\n        continue\n"
        "    try:\n        f(s)\n    except Exception as e:\n        bad.append((n, type(e).__name__))\n"
        "print(repr(s), 'accepted' if ok else 'rejected', bad)\nsys.exit(1 if ok and bad else 0)\n"),
    'rank': _PRE + (
        "k = athlib.discipline_sort_key(s)\n"
        "exp = 2 if codes.PAT_HURDLES.match(s) else 3 if codes.PAT_JUMPS.match(s) else 4 if codes.PAT_THROWS.match(s) else 5 if codes.PAT_RELAYS.match(s) else None\n"
        "if exp is None and not codes.PAT_TRACK.match(s): exp = 6\n"
        "if exp is None:\n    m = codes.PAT_TRACK.match(s)\n    exp = 1 if m.group('meters') and not m.group('msfx') else k[0]\n"
        "print(repr(s), k, 'expected rank', exp)\nsys.exit(0 if k[0] == exp else 1)\n"),
    'distance': _PRE + (
        "def leg_range(m):\n    import re\n    g = m.group(2)\n    mm = re.fullmatch(r'(\\d+)(?:\\.(\\d+))?([hHKM]?)', g)\n    if not mm: return None\n    ip, fp, sfx = mm.group(1), mm.group(2), mm.group(3)\n    mult = 1 if sfx in ('', 'h', 'H') else 1000 if sfx == 'K' else 1609\n    if fp is None: return (mult * int(ip), mult * int(ip))\n    if mult == 1: return (int(ip), int(ip))\n    E_ = mult * int(ip + fp) // 10 ** len(fp)\n    return (E_ - 1, E_)\n"
        "import re\nk = athlib.discipline_sort_key(s)\nexp = None\n"
        "m = codes.PAT_HURDLES.match(s)\n"
        "if m: exp = int(m.group(1))\n"
        "elif codes.PAT_RELAYS.match(s):\n    mr = codes.PAT_RELAYS.match(s)\n"
        "    if mr.group(3) is not None and not (codes.PAT_THROWS.match(s) or codes.PAT_JUMPS.match(s)):\n        lr = leg_range(mr)\n        exp = None if lr is None else (lr[0], lr[1] + 1)\n"
        "elif codes.PAT_TRACK.match(s) and not (codes.PAT_THROWS.match(s) or codes.PAT_JUMPS.match(s)):\n    g = codes.PAT_TRACK.match(s).group('meters')\n"
        "    if g and g.isdigit(): exp = int(g)\n    elif g:\n        nd = re.match(r'\\d*', g).group()\n        n_ = int(nd) if nd else 1\n        exp = (1609 * n_, 1610 * n_ + (n_ == 0))\n"
        "print(repr(s), k, 'expected distance', exp)\n"
        "sys.exit(1 if exp is not None and (not (exp[0] <= k[1] < exp[1]) if isinstance(exp, tuple) else k[1] != exp) else 0)\n"),
    'field-order': _PRE + (
        "k = athlib.discipline_sort_key(s)\nu = s.upper()\nbase = ''\n"
        "for ch in u:\n    if ch.isalpha(): base += ch\n    else: break\n"
        "if base in ('H', 'L'): base = u[:2]\n"
        "exp = codes.FIELD_SORT_ORDER.index(base) if base in codes.FIELD_SORT_ORDER else None\n"
        "print(repr(s), k, base, exp)\nsys.exit(1 if exp is not None and k[1] != exp else 0)\n"),
    'text-key': _PRE + (
        "k = athlib.discipline_sort_key(s)\nt = athlib.text_discipline_sort_key(s)\n"
        "ok = k[1] >= 100000 or (len(t) == 8 + len(s) and t[0] == str(k[0]) and t[1] == '_' and t[7] == '_' and t[2:7].isdigit() and int(t[2:7]) == k[1] and t[8:] == s)\n"
        "print(repr(s), k, repr(t))\nsys.exit(0 if ok else 1)\n"),
    'relay-distance': _PRE + (
        "def leg_range(m):\n    import re\n    g = m.group(2)\n    mm = re.fullmatch(r'(\\d+)(?:\\.(\\d+))?([hHKM]?)', g)\n    if not mm: return None\n    ip, fp, sfx = mm.group(1), mm.group(2), mm.group(3)\n    mult = 1 if sfx in ('', 'h', 'H') else 1000 if sfx == 'K' else 1609\n    if fp is None: return (mult * int(ip), mult * int(ip))\n    if mult == 1: return (int(ip), int(ip))\n    E_ = mult * int(ip + fp) // 10 ** len(fp)\n    return (E_ - 1, E_)\n"
        "m = codes.PAT_RELAYS.match(s)\nd = athlib.get_distance(s)\nleg = athlib.get_distance(m.group(2).upper()) if m and m.group(3) else None\n"
        "lr = leg_range(m) if m and m.group(3) else None\n"
        "print(repr(s), 'relay', d, 'leg', leg, 'leg distance from the digits', lr)\n"
        "sys.exit(1 if (lr is not None and (leg is None or not (lr[0] <= leg <= lr[1]))) or (leg is not None and d != int(m.group(1)) * leg) else 0)\n"),
    'pair-text-order': 'import sys, athlib\na = {a}\nb = {b}\n' + (
        "ka, kb = athlib.discipline_sort_key(a), athlib.discipline_sort_key(b)\nta, tb = athlib.text_discipline_sort_key(a), athlib.text_discipline_sort_key(b)\n"
        "print(repr(a), repr(b), ka, kb, ta, tb)\nsys.exit(1 if max(ka[1], kb[1]) < 100000 and ((ka < kb) != (ta < tb) or (ka == kb) != (ta == tb)) else 0)\n"),
    'pair-sorter': 'import sys, athlib\na = {a}\nb = {b}\n' + (
        "class O: pass\no = O(); o.discipline = b\nstuff = [dict(discipline=a), dict(other=1), o, dict(discipline=None), dict(discipline=b)]\n"
        "try:\n    r = athlib.sort_by_discipline(stuff)\nexcept Exception as e:\n    print(repr(a), repr(b), repr(e)); sys.exit(1)\n"
        "key = lambda t: athlib.discipline_sort_key(t.get('discipline') if isinstance(t, dict) else t.discipline)\n"
        "ks = [key(t) for t in r]\nprint(repr(a), repr(b), ks)\n"
        "sys.exit(0 if ks == sorted(ks) and sorted(map(id, r)) == sorted(map(id, stuff)) else 1)\n"),
    'unexpected-exception': _PRE + "print('harness-level exception')\nsys.exit(0)\n",
}


def _int_of(text):
    """SymInt/int of a digit (Sym)string"""
    return parse_int(text) if isinstance(text, SymStr) else int(text)


def leg_metres(mr):
    """distance of a numeric relay leg from the matched text: digits [. digits] [h H K M].  An integer, or ('range', lo, hi) terms when
    the quantity has a fraction: int(1000 * float('2.3')) is 2299 in doubles, so the exact value E = floor(mult * t / 10**n) and E - 1 are both right"""
    num = mr.group(3)
    leg = mr.group(2)
    sfx = leg[len(num):]
    if len(sfx) == 0 or sfx == 'h' or sfx == 'H':
        mult = 1
    elif sfx == 'K':
        mult = 1000
    elif sfx == 'M':
        mult = 1609
    else:
        return None
    frac = mr.group(4)
    if frac is None:
        return mult * _int_of(num)
    nfr = len(frac) - 1
    ip = num[:len(num) - len(frac)]
    t = _as_term(_int_of(ip)) * (10 ** nfr) + _as_term(_int_of(frac[1:]))
    if mult == 1:
        return _int_of(ip)
    Ex = (mult * t) / (10 ** nfr)
    return ('range', Ex - 1, Ex)


def _as_term(v):
    if isinstance(v, SymInt):
        return v.term
    if isinstance(v, SymFloat):
        if v.ieee:
            raise E.Unsupported('bit-precise float in a sort key')
        return v.term
    if isinstance(v, float):
        from symrun.values import realval
        return realval(v)
    return z3.IntVal(v)


def body_single(template):
    def body(R):
        athlib = hc._athlib
        codes = sys.modules['athlib.codes']
        utils = sys.modules['athlib.utils']
        ascore = sys.modules['athlib.athlon_score']
        agegrader = sys.modules['athlib.wma.agegrader']
        eng = E.cur()
        s = mk_string(template)
        R.partial = {'inputs': {'s': s}}
        if athlib.check_event_code(s) is None:
            return {'inputs': {'s': s}, 'observe': [], 'note': 'template-not-accepted'}
        out = {}
        calls = [('discipline_sort_key', utils.discipline_sort_key), ('text_discipline_sort_key', utils.text_discipline_sort_key),
                 ('get_distance', utils.get_distance), ('get_duration_event_time', utils.get_duration_event_time),
                 ('unit_name', ascore.unit_name)]
        in4 = any(getattr(codes, p).match(s) is not None for p in ('PAT_THROWS', 'PAT_JUMPS', 'PAT_TRACK', 'PAT_ROAD'))
        if in4:
            calls.append(('event_code_to_kind', agegrader.AgeGrader.event_code_to_kind))
        for name, f in calls:
            try:
                out[name] = f(s)
            except Exception as e:
                raise hc.PathFail('raises:%s' % name, '%s raised %s' % (name, type(e).__name__))
        key = out['discipline_sort_key']
        txt = out['text_discipline_sort_key']
        rank, dist, disc = key
        # ---- family rank
        mh = codes.PAT_HURDLES.match(s)
        mj = codes.PAT_JUMPS.match(s)
        mt = codes.PAT_THROWS.match(s)
        mr = codes.PAT_RELAYS.match(s)
        mk = codes.PAT_TRACK.match(s)
        exp = 2 if mh else 3 if mj else 4 if mt else 5 if mr else None
        if exp is None and mk is None:
            exp = 6
        if exp is None:
            g = mk.group('meters')
            if g and not mk.group('msfx'):
                exp = 1
        if exp is not None and not (rank == exp):
            raise hc.PathFail('rank', 'rank %r expected %r' % (rank, exp))
        # ---- numeric distance is the second key component
        expd = None
        if mh:
            expd = _int_of(mh.group(1))
        elif mr and not (mt or mj):
            if mr.group(3) is not None:
                expd = leg_metres(mr)
        elif mk and not (mt or mj):
            g = mk.group('meters')
            if g is not None:
                gc = SymStr.lift(g).cells
                if all(classify(c) == 'digit' for c in gc):
                    expd = _int_of(g)
                else:
                    # N MILE: the count is the whole run of leading digits (none: one mile) - read from the text, not the way the library reads it
                    nd = 0
                    while nd < len(gc) and classify(gc[nd]) == 'digit':
                        nd += 1
                    expd = ('mile', _int_of(g[:nd]) if nd else 1)
        if isinstance(expd, tuple) and expd[0] == 'range':
            eng.check(z3.And(_as_term(dist) >= expd[1], _as_term(dist) <= expd[2]), 'distance')
        elif isinstance(expd, tuple):
            n = _as_term(expd[1])
            eng.check(z3.And(_as_term(dist) >= 1609 * n, _as_term(dist) < 1610 * n + z3.If(n == 0, 1, 0)), 'distance')
        elif expd is not None:
            eng.check(_as_term(dist) == _as_term(expd), 'distance')
        # ---- field order index
        if mt or mj:
            u = s.upper()
            uc = SymStr.lift(u).cells
            base = []
            for c in uc:
                if classify(c) == 'letter':
                    base.append(c)
                else:
                    break
            base = _mk(base)
            if len(base) == 1 and (base == 'H' or base == 'L'):
                base = u[:2]
            fso = codes.FIELD_SORT_ORDER
            idx = None
            for i, name in enumerate(fso):
                if base == name:
                    idx = i
                    break
            if idx is not None:
                eng.check(_as_term(dist) == idx, 'field-order')
        # ---- text key structure (fixed-width rendering => text order == tuple order, see lemma)
        small = (dist < 100000)
        if bool(small):
            tc = SymStr.lift(txt).cells
            sc_ = SymStr.lift(s).cells
            if len(tc) != 8 + len(sc_):
                raise hc.PathFail('text-key', 'length')
            if not (txt[0] == str(rank)) or not (txt[1] == '_') or not (txt[7] == '_'):
                raise hc.PathFail('text-key', 'separators')
            digs = txt[2:7]
            if not all(cell_test(c, str.isdigit) for c in SymStr.lift(digs).cells):
                raise hc.PathFail('text-key', 'digits')
            eng.check(_as_term(_int_of(digs)) == _as_term(dist), 'text-key')
            eng.check(hc.symstr_eq_term(txt[8:], s), 'text-key')
        # ---- relay distance
        if mr and mr.group(3) is not None:
            d = out['get_distance']
            # the leg distance is read from the matched digits (metres, K = kilometres, M = miles of 1609 m), not through the library
            # (two linear steps instead of one product of two symbolic integers: the library's own leg estimate against the digits,
            # and the relay estimate against legs x that estimate)
            lm = leg_metres(mr)
            try:
                legd = utils.get_distance(mr.group(2).upper())
            except Exception as e:
                raise hc.PathFail('raises:get_distance', 'leg')
            if lm is not None:
                if legd is None:
                    raise hc.PathFail('relay-distance', 'no distance for a numeric leg')
                if isinstance(lm, tuple):
                    eng.check(z3.And(_as_term(legd) >= lm[1], _as_term(legd) <= lm[2]), 'relay-distance')
                else:
                    eng.check(_as_term(legd) == _as_term(lm), 'relay-distance')
            if legd is not None:
                legs = _int_of(mr.group(1))
                if d is None:
                    raise hc.PathFail('relay-distance', 'None')
                eng.check(_as_term(d) == _as_term(legs * legd), 'relay-distance')
        obs = [('athlib.discipline_sort_key(s)[:2]', (rank, dist)), ('athlib.text_discipline_sort_key(s)', txt),
               ('athlib.utils.get_duration_event_time(s)', out['get_duration_event_time'])]
        if not isinstance(out['get_distance'], (SymInt, SymFloat)):
            obs.append(('athlib.get_distance(s)', out['get_distance']))
        return {'inputs': {'s': s}, 'observe': obs}
    return body


def body_pair(ta, tb):
    def body(R):
        athlib = hc._athlib
        utils = sys.modules['athlib.utils']
        eng = E.cur()
        a = mk_string(ta)
        b = mk_string(tb)
        R.partial = {'inputs': {'a': a, 'b': b}}
        if athlib.check_event_code(a) is None or athlib.check_event_code(b) is None:
            return {'inputs': {'a': a, 'b': b}, 'observe': []}
        try:
            ka, kb = utils.discipline_sort_key(a), utils.discipline_sort_key(b)
            xa, xb = utils.text_discipline_sort_key(a), utils.text_discipline_sort_key(b)
        except Exception:
            return {'inputs': {'a': a, 'b': b}, 'observe': []}   # totality is the single-code clause
        if bool(ka[1] < 100000) and bool(kb[1] < 100000):
            lt_k = bool(ka < kb)
            lt_t = bool(xa < xb)
            eq_k = bool(ka == kb)
            eq_t = bool(xa == xb)
            if lt_k != lt_t or eq_k != eq_t:
                raise hc.PathFail('pair-text-order')

        class O(object):
            pass
        o = O()
        o.discipline = b
        stuff = [dict(discipline=a), dict(other=1), o, dict(discipline=None), dict(discipline=b)]
        try:
            r = utils.sort_by_discipline(stuff)
        except Exception as e:
            raise hc.PathFail('pair-sorter', 'raised %s' % type(e).__name__)
        ks = [utils.discipline_sort_key(t.get('discipline') if isinstance(t, dict) else t.discipline) for t in r]
        for i in range(len(ks) - 1):
            if bool(ks[i + 1] < ks[i]):
                raise hc.PathFail('pair-sorter', 'not sorted')
        if sorted(map(id, r)) != sorted(map(id, stuff)):
            raise hc.PathFail('pair-sorter', 'not a permutation')
        return {'inputs': {'a': a, 'b': b}, 'observe': []}
    return body


def worker(job):
    kind, payload, budget = job
    res = JobResult()
    R = hc.Runner(res, plain(), 'athlib.discipline_sort_key', SCRIPTS, max_paths=30000,
                  deadline=time.time() + budget, witness_every=1)
    try:
        if kind == 'single':
            R.explore(body_single(payload), 'single %s' % T.show(payload))
        elif kind == 'history':
            # the clauses of one code after the same functions were called for another code of the same template (cells of its own)
            R.prime_body = body_single(payload)
            R.explore(body_single(payload), 'single %s after another code of the template' % T.show(payload))
        else:
            R.explore(body_pair(*payload), 'pair %s | %s' % (T.show(payload[0]), T.show(payload[1])))
    except E.Budget as e:
        res.inconclusive.append('%s %s: %s' % (kind, T.show(payload) if kind != 'pair' else ' | '.join(map(T.show, payload)), e))
    return res


def lemma_fixed_width(chk):
    """for two 5-digit zero-padded renderings: lexicographic order == numeric order (z3, all digit values)"""
    d = [z3.Int('d%d' % i) for i in range(5)]
    e = [z3.Int('e%d' % i) for i in range(5)]
    dom = z3.And([z3.And(x >= 0, x <= 9) for x in d + e])
    num = lambda v: sum(v[i] * 10 ** (4 - i) for i in range(5))
    lex = z3.BoolVal(False)
    for i in reversed(range(5)):
        lex = z3.Or(d[i] < e[i], z3.And(d[i] == e[i], lex))
    s = z3.Solver()
    s.add(dom, lex != (num(d) < num(e)))
    t = time.time()
    r = str(s.check())
    chk.count_query('z3-%s' % z3.get_version_string(), time.time() - t)
    chk.obligations += 1
    if r == 'unsat':
        chk.discharged += 1
    else:
        chk.inconclusive_note('fixed-width lemma: %s' % r)


def conventional_order(chk, athlib):
    """HJ PV LJ TJ SP DT HT JT in this order, jumps before throws (concrete: 8 constants of the property text)"""
    order = ['HJ', 'PV', 'LJ', 'TJ', 'SP', 'DT', 'HT', 'JT']
    keys = [athlib.discipline_sort_key(c) for c in order]
    chk.obligations += 1
    if keys == sorted(keys) and len(set(keys)) == len(keys):
        chk.discharged += 1
        chk.trivial += 1
    else:
        script = ("import sys, athlib\norder = %r\nkeys = [athlib.discipline_sort_key(c) for c in order]\nprint(keys)\n"
                  "sys.exit(0 if keys == sorted(keys) and len(set(keys)) == len(keys) else 1)\n" % (order,))
        chk.report({'label': 'conventional-order', 'func': 'athlib.discipline_sort_key', 'kind': 'conventional-order',
                    'args_text': repr(order), 'expected': 'strictly increasing keys', 'observed': repr(keys), 'script': script})


def run(chk, only=None):
    athlib = hc.load_athlib()
    codes = sys.modules['athlib.codes']
    rng = random.Random(chk.seed)
    quick = chk.tier == 'quick'
    pat = codes.PAT_EVENT_CODE._real
    rule = T.Rule(plus=(1, 3), star=(0, 2), ws=(0, 1), max_ws=0 if quick else 1)
    allt = T.templates_of(pat, rule)
    def is_hspec(t):
        return any(d == frozenset('c') for d in t) and any(d == frozenset('m') for d in t)
    hs = [t for t in allt if is_hspec(t)]
    other = [t for t in allt if not is_hspec(t)]
    rng.shuffle(hs)
    hs = hs[:600 if quick else 6000]
    singles = other + hs
    # long digit runs so that distances >= 100000 and 4-digit hurdles are reached
    extra_rule = T.Rule(plus=(5, 6), star=(0,), ws=(0,), max_ws=0)
    extra = [t for t in T.templates_of(codes.PAT_TRACK._real, extra_rule) if not is_hspec(t) and len(t) <= 8]
    singles += extra
    small = [t for t in T.templates_of(pat, T.Rule(plus=(1, 2), star=(0, 1), ws=(0,), max_ws=0)) if not is_hspec(t)]
    def frac_relay(t):
        return any(d == frozenset('xX') for d in t) and any(d == frozenset('.') for d in t)
    small = [t for t in small if not frac_relay(t)]   # fractional relay legs go through the float abstraction twice: single-code clauses only
    pairs = []
    npairs = 150 if quick else 1500
    for _ in range(npairs):
        pairs.append((rng.choice(small), rng.choice(small)))
    # same-family pairs (ordering inside a family) : take neighbours in the list
    for i in range(0, len(small) - 1, 7 if quick else 2):
        pairs.append((small[i], small[i + 1]))
        pairs.append((small[i], small[i]))
    if only:
        singles = [t for t in singles if only in T.show(t)]
        pairs = [p for p in pairs if only in T.show(p[0])][:20]
    budget = 120 if quick else 600
    # history clause: the relay templates (leg count x leg distance with a unit) and a seeded sample of the others once more, after the
    # same functions ran on another code of the same template
    hist = [t for t in small if any(d == frozenset('xX') for d in t)]
    rest = [t for t in small if t not in hist]
    rng.shuffle(rest)
    hist += rest[:40 if quick else 400]
    if only:
        hist = [t for t in hist if only in T.show(t)]
    jobs = [('single', t, budget) for t in singles] + [('pair', p, budget) for p in pairs] + [('history', t, budget) for t in hist]
    rng.shuffle(jobs)
    chk.functions = ['athlib.utils.discipline_sort_key', 'athlib.utils._field_sort_order', 'athlib.utils.text_discipline_sort_key',
                     'athlib.utils.sort_by_discipline', 'athlib.utils.get_distance', 'athlib.utils.get_duration_event_time',
                     'athlib.athlon_score.unit_name', 'athlib.wma.agegrader.AgeGrader.event_code_to_kind',
                     'athlib.codes.* patterns (live parse trees, symbolic matcher)']
    chk.stubs = ['regex matching on symbolic strings by symrun.rematch; float(text) of digit cells = correctly rounded rational (reals-with-rounding model); '
                 "'%05d' of a symbolic integer = digit-cell string with value constraint; all validated per path on a solver witness against the plain library",
                 'text-key order == tuple-key order is derived from the per-code structure obligations plus the fixed-width lemma (one z3 query) and checked end-to-end on template pairs']
    chk.bounds = {'single_templates': len(singles), 'pair_jobs': len(pairs), 'rule': rule.describe(),
                  'hurdles_spec_templates_sampled': len(hs)}
    chk.outside = ['digit runs beyond the template rule (3; 5-6 for plain track distances)', 'pairs of codes beyond the seeded sample of template pairs',
                   'fractional relay legs in the sort-key distance clause and in the pair clauses']
    print('C10: %d single templates, %d pairs' % (len(singles), len(pairs)), flush=True)
    lemma_fixed_width(chk)
    conventional_order(chk, athlib)
    pool.run_jobs(chk, worker, jobs, chunksize=4, progress=2000)
    chk.extra['functions_loaded_through_hook'] = hc.functions_loaded()
