"""C02 - high jump: only rule-conforming trials are recorded; refusals change nothing.
See harness/hj.py / hj_run.py for the symbolic pre-state and the clauses."""
from vlib import pool
from harness import hc, hj_run


def run(chk, only=None):
    hc.load_athlib()
    import athlib.highjump  # noqa
    quick = chk.tier == 'quick'
    nmax, Hmax = (2, 3) if quick else (3, 3)
    jobs = hj_run.jobs_one(hj_run.CLAUSES_C02 + ['inv'], nmax, Hmax, 600 if quick else 3000)
    jobs += hj_run.jobs_jumpoff(hj_run.CLAUSES_C02, nmax, Hmax, 600 if quick else 3000)
    if only:
        jobs = [j for j in jobs if only in '%s %s' % (j[4], j[5]) or only in repr(j)]
    hj_run.common_evidence(chk, nmax, Hmax)
    chk.bounds['clauses'] = 'refusal raises RuleViolation and leaves every observable unchanged; accepted <=> the rules of the property text on the cards; log grows by exactly the call; state order never decreases'
    print('C02: %d (shape, call) jobs' % len(jobs), flush=True)
    pool.run_jobs(chk, hj_run.worker, jobs, chunksize=2, progress=200)
    chk.extra['functions_loaded_through_hook'] = hc.functions_loaded()
