"""C13 - UK age groups follow the rule cut-off dates for every birth and meeting date.

The real calc_uka_age_group / rule107 / rule507 / prior_date run on symbolic birth
and competition dates (three z3 integers each, validity assumed), with
datetime.date / dateutil.relativedelta / dateutil.parser replaced by the LIA
contracts of symrun/shims/datetime_shim.py (validated against the real dateutil
at start-up).  Oracle: the rule text written independently as linear integer
arithmetic over completed-years ages on 31 Aug / 31 Dec / the day.
"""
import sys
import time

import z3

from vlib import core, pool
from vlib.pool import JobResult
from harness import hc
from symrun import engine as E
from symrun.values import SymInt, symint, symbool, mkbool
from symrun.strings import SymStr, parse_int, _mk
from symrun.shadow import render_int
from symrun.shims import datetime_shim as D

SHIMS = {'datetime': 'symrun.shims.datetime_shim', 'dateutil.parser': 'symrun.shims.datetime_shim',
         'dateutil.relativedelta': 'symrun.shims.datetime_shim'}

_PRE = ('import sys, athlib, datetime\nby, bm, bd = {by}, {bm}, {bd}\nmy, mm, md = {my}, {mm}, {md}\ncat = {cat}\nvets = {vets}\nunderage = {underage}\n'
        'birth = datetime.date(by, bm, bd)\nmatch = datetime.date(my, mm, md)\n'
        'def age(on, b):\n'
        '    # completed years; 29 Feb birthdays count on 28 Feb in common years\n'
        '    import calendar\n'
        '    bd_ = min(b.day, calendar.monthrange(on.year, b.month)[1])\n'
        '    return on.year - b.year - ((on.month, on.day) < (b.month, bd_))\n'
        'RANK = lambda g: {{"U9": 9, "U11": 11, "U13": 13, "U15": 15, "U17": 17, "U20": 20, "SEN": 30}}.get(g) or 100 + int(g[1:])\n')
SCRIPTS = {
    'raises': _PRE + ("try:\n    g = athlib.calc_uka_age_group(birth, match, cat, vets=vets, underage=underage); bad = False\nexcept Exception as e:\n    g = repr(e); bad = True\n"
                      "print(birth, match, cat, vets, underage, '->', g)\nsys.exit(1 if bad else 0)\n"),
    'tf-rule': _PRE + (
        "g = athlib.calc_uka_age_group(birth, match, cat, vets=vets, underage=underage)\n"
        "a31 = age(datetime.date(my, 8, 31), birth); d31 = age(datetime.date(my, 12, 31), birth); amd = age(match, birth)\n"
        "if underage and a31 < 9: exp = 'U9'\nelif a31 < 11: exp = 'U11'\nelif a31 <= 12: exp = 'U13'\nelif a31 <= 14: exp = 'U15'\nelif a31 <= 16: exp = 'U17'\n"
        "elif d31 < 20: exp = 'U20'\nelif amd >= 35 and vets: exp = 'V%02d' % (5 * (amd // 5))\nelse: exp = 'SEN'\n"
        "print(birth, match, cat, vets, underage, '->', g, 'rule text gives', exp, (a31, d31, amd))\n"
        "sys.exit(0 if g == exp or not ((1, 1) <= (mm, md) <= (9, 30)) else 1)\n"),
    'iso-string': _PRE + (
        "g = athlib.calc_uka_age_group(birth, match, cat, vets=vets, underage=underage)\n"
        "h = athlib.calc_uka_age_group(birth.isoformat(), match, cat, vets=vets, underage=underage)\n"
        "print(birth, match, cat, '->', g, 'vs string', h)\nsys.exit(0 if g == h else 1)\n"),
    'vets-option': _PRE + (
        "a = athlib.calc_uka_age_group(birth, match, cat, vets=True, underage=underage)\nb = athlib.calc_uka_age_group(birth, match, cat, vets=False, underage=underage)\n"
        "print(birth, match, cat, 'vets', a, 'no vets', b)\nsys.exit(0 if a == b or (a.startswith('V') and b == 'SEN') else 1)\n"),
    'underage-option': _PRE + (
        "a = athlib.calc_uka_age_group(birth, match, cat, vets=vets, underage=True)\nb = athlib.calc_uka_age_group(birth, match, cat, vets=vets, underage=False)\n"
        "print(birth, match, cat, 'underage', a, 'not', b)\nsys.exit(0 if a == b or (a == 'U9' and b == 'U11') else 1)\n"),
    'birth-monotone': _PRE + (
        "b2 = datetime.date({by2}, {bm2}, {bd2})\n"
        "g1 = athlib.calc_uka_age_group(birth, match, cat, vets=vets, underage=underage)\ng2 = athlib.calc_uka_age_group(b2, match, cat, vets=vets, underage=underage)\n"
        "print('born', birth, '->', g1, '; born', b2, '->', g2, 'at', match, cat)\n"
        "sys.exit(1 if birth <= b2 and RANK(g1) < RANK(g2) else 0)\n"),
    'masters-band': _PRE + (
        "g = athlib.calc_uka_age_group(birth, match, cat, vets=True, underage=underage)\namd = age(match, birth)\n"
        "print(birth, match, cat, '->', g, 'age on the day', amd)\n"
        "ok = (g.startswith('V') and amd >= 35 and int(g[1:]) == 5 * (amd // 5)) or (not g.startswith('V'))\nsys.exit(0 if ok else 1)\n"),
    'unexpected-exception': 'import sys\nsys.exit(0)\n',
}

plain = hc.plain

SCRIPTS['history'] = _PRE + hc.FRESH_SRC + (
    "pb = datetime.date({pby}, {pbm}, {pbd})\npm = datetime.date({pmy}, {pmm}, {pmd})\n"
    "f = lambda: athlib.calc_uka_age_group(birth, match, cat, vets=vets, underage=underage)\n"
    "g0 = fresh(f)\nhere(lambda: athlib.calc_uka_age_group(pb, pm, {pcat}, vets=vets, underage=underage))\ng1 = here(f)\n"
    "print(birth, match, cat, vets, underage, '-> fresh', g0, '; after the same question for', pb, pm, {pcat}, '->', g1)\n"
    "sys.exit(0 if g0 == g1 else 1)\n")


def sym_date(tag, ylo, yhi):
    eng = E.cur()
    y = symint(tag + 'y', ylo, yhi)
    m = symint(tag + 'm', 1, 12)
    d = symint(tag + 'd', 1, 31)
    eng.add(D.valid_term(y, m, d))
    return D.SymDate(y, m, d)


def age_term(on, b):
    """oracle: completed years of b on date `on` (z3 Int), Feb-29 birthdays on Feb 28 in common years"""
    oy, om, od = D._t(on.year), D._t(on.month), D._t(on.day)
    by, bm, bd = D._t(b.year), D._t(b.month), D._t(b.day)
    dim = D.days_in_month(oy, bm, D._Z3Ops)
    bdc = z3.If(bd < dim, bd, dim)
    before = z3.Or(om < bm, z3.And(om == bm, od < bdc))
    return oy - by - z3.If(before, 1, 0)


def rank_term(g):
    """z3 Int ordering the groups U9 < U11 < ... < U20 < SEN < V35 < V40 ..."""
    if isinstance(g, str):
        t = {'U9': 9, 'U11': 11, 'U13': 13, 'U15': 15, 'U17': 17, 'U20': 20, 'SEN': 30}.get(g)
        if t is not None:
            return z3.IntVal(t)
        if g[:1] == 'V' and g[1:].isdigit():
            return z3.IntVal(100 + int(g[1:]))
        raise hc.PathFail('raises', 'unknown group %r' % g)
    if isinstance(g, SymStr) and g[0] == 'V':
        v = parse_int(g[1:])
        return 100 + (v.term if isinstance(v, SymInt) else z3.IntVal(v))
    raise hc.PathFail('raises', 'unknown group %r' % (g,))


def group_eq_term(a, b):
    return hc.symstr_eq_term(a, b) if (isinstance(a, SymStr) or isinstance(b, SymStr)) else z3.BoolVal(a == b)


def inputs_of(birth, match, cat, vets, underage, birth2=None):
    d = {'by': birth.year, 'bm': birth.month, 'bd': birth.day, 'my': match.year, 'mm': match.month, 'md': match.day,
         'cat': cat, 'vets': vets, 'underage': underage}
    if birth2 is not None:
        d.update({'by2': birth2.year, 'bm2': birth2.month, 'bd2': birth2.day})
    return d


def setup_dates(two=False):
    eng = E.cur()
    match = sym_date('m', 1900, 2100)
    birth = sym_date('b', 1790, 2100)
    eng.add(birth._key() <= match._key())
    eng.add(D._t(match.year) - D._t(birth.year) <= 110)
    if not two:
        return birth, match
    birth2 = sym_date('c', 1790, 2100)
    eng.add(birth2._key() <= match._key())
    eng.add(D._t(match.year) - D._t(birth2.year) <= 110)
    return birth, match, birth2


def call(ag, birth, match, cat, vets, underage):
    try:
        return ag.calc_uka_age_group(birth, match, cat, vets=vets, underage=underage)
    except Exception as e:
        raise hc.PathFail('raises', '%s: %s' % (type(e).__name__, str(e)[:80]))


def body_rule(cat, vets, underage):
    """totality + TF rule text + masters band"""
    def body(R):
        ag = sys.modules['athlib.uka.agegroups']
        eng = E.cur()
        birth, match = setup_dates()
        ins = inputs_of(birth, match, cat, vets, underage)
        R.partial = {'inputs': ins}
        g = call(ag, birth, match, cat, vets, underage)
        amd = age_term(match, birth)
        if cat == 'TF':
            my = match.year
            a31 = age_term(D.SymDate(my, 8, 31), birth)
            d31 = age_term(D.SymDate(my, 12, 31), birth)
            in_window = match._key() % 10000 <= 930            # 1 Jan .. 30 Sep
            # the group the rule text gives, as a rank number (V-bands: 100 + band)
            band = 100 + 5 * (amd / 5)
            exp = z3.If(z3.And(underage, a31 < 9), 9,
                  z3.If(a31 < 11, 11, z3.If(a31 <= 12, 13, z3.If(a31 <= 14, 15, z3.If(a31 <= 16, 17,
                  z3.If(d31 < 20, 20, z3.If(z3.And(amd >= 35, vets), band, 30)))))))
            eng.check(z3.Implies(in_window, rank_term(g) == exp), 'tf-rule')
        # masters bands are five-year bands from 35 on the day, in every category
        if vets:
            r = rank_term(g)
            eng.check(z3.Implies(r >= 100, z3.And(amd >= 35, r == 100 + 5 * (amd / 5))), 'masters-band')
        return {'inputs': ins, 'observe': [('athlib.calc_uka_age_group(datetime.date(by, bm, bd), datetime.date(my, mm, md), cat, vets=vets, underage=underage)', g)]}
    return body


def body_history(cat, pcat, vets, underage):
    """the answer for one (birth, meeting) pair after the same function was asked about another pair (own symbolic dates, category
    pcat) equals the answer of a fresh import: prime; g1 = f(a); library state put back; g0 = f(a); g0 == g1"""
    def body(R):
        ag = sys.modules['athlib.uka.agegroups']
        eng = E.cur()
        birth, match = setup_dates()
        # the earlier question: same athlete, another day of the same calendar month (what a results service asks in a row; a wider
        # priming pair multiplies the paths of three calls beyond the budget)
        pd_ = symint('pmd', 1, 31)
        eng.add(D.valid_term(match.year, match.month, pd_))
        pm = D.SymDate(match.year, match.month, pd_)
        pb = birth
        eng.add(pb._key() <= pm._key())
        ins = inputs_of(birth, match, cat, vets, underage)
        ins.update({'pby': pb.year, 'pbm': pb.month, 'pbd': pb.day, 'pmy': pm.year, 'pmm': pm.month, 'pmd': pm.day, 'pcat': pcat})
        R.partial = {'inputs': ins}
        try:
            ag.calc_uka_age_group(pb, pm, pcat, vets=vets, underage=underage)
        except Exception:
            pass
        g1 = call(ag, birth, match, cat, vets, underage)
        hc.reset_library_state()
        g0 = call(ag, birth, match, cat, vets, underage)
        eng.check(group_eq_term(g0, g1), 'history')
        return {'inputs': ins, 'observe': []}
    return body


def body_options(cat):
    """ISO string == date object; vets only V<->SEN; underage only U11<->U9"""
    def body(R):
        ag = sys.modules['athlib.uka.agegroups']
        eng = E.cur()
        birth, match = setup_dates()
        vets = bool(eng.choose(2, 'vets'))
        underage = bool(eng.choose(2, 'underage'))
        ins = inputs_of(birth, match, cat, vets, underage)
        R.partial = {'inputs': ins}
        g = call(ag, birth, match, cat, vets, underage)
        # the same birth date as ISO text: YYYY-MM-DD digit cells tied to the same integers
        iso = _mk(SymStr.lift(render_int(birth.year, 4, True)).cells + ['-'] + SymStr.lift(render_int(birth.month, 2, True)).cells + ['-']
                  + SymStr.lift(render_int(birth.day, 2, True)).cells)
        h = call(ag, iso, match, cat, vets, underage)
        eng.check(group_eq_term(g, h), 'iso-string')
        g_other_v = call(ag, birth, match, cat, not vets, underage)
        gv, gn = (g, g_other_v) if vets else (g_other_v, g)
        rv, rn = rank_term(gv), rank_term(gn)
        eng.check(z3.Or(group_eq_term(gv, gn), z3.And(rv >= 100, rn == 30)), 'vets-option')
        g_other_u = call(ag, birth, match, cat, vets, not underage)
        gu, go = (g, g_other_u) if underage else (g_other_u, g)
        eng.check(z3.Or(group_eq_term(gu, go), z3.And(rank_term(gu) == 9, rank_term(go) == 11)), 'underage-option')
        return {'inputs': ins, 'observe': [('athlib.calc_uka_age_group(datetime.date(by, bm, bd).isoformat(), datetime.date(my, mm, md), cat, vets=vets, underage=underage)', h)]}
    return body


def body_monotone(cat, vets, underage):
    def body(R):
        ag = sys.modules['athlib.uka.agegroups']
        eng = E.cur()
        birth, match, birth2 = setup_dates(two=True)
        eng.add(birth._key() <= birth2._key())          # birth is the earlier birth date
        ins = inputs_of(birth, match, cat, vets, underage, birth2)
        R.partial = {'inputs': ins}
        g1 = call(ag, birth, match, cat, vets, underage)
        g2 = call(ag, birth2, match, cat, vets, underage)
        eng.check(rank_term(g1) >= rank_term(g2), 'birth-monotone')
        return {'inputs': ins, 'observe': []}
    return body


def worker(job):
    kind = job[0]
    res = JobResult()
    R = hc.Runner(res, plain(), 'athlib.calc_uka_age_group', SCRIPTS, max_paths=100000, deadline=time.time() + (300 if kind == 'history' else 900))
    try:
        if kind == 'rule':
            R.explore(body_rule(*job[1:]), 'rule %s vets=%s underage=%s' % job[1:])
        elif kind == 'options':
            R.explore(body_options(*job[1:]), 'options %s' % job[1:])
        elif kind == 'history':
            R.explore(body_history(*job[1:]), 'history %s after %s vets=%s underage=%s' % job[1:])
        else:
            R.explore(body_monotone(*job[1:]), 'monotone %s vets=%s underage=%s' % job[1:])
    except E.Budget as e:
        res.inconclusive.append('%r: %s' % (job, e))
    return res


def run(chk, only=None):
    quick = chk.tier == 'quick'
    n, bad = D.validate(full=not quick)
    chk.extra['dateutil_contract_validated_on_pairs'] = n
    if bad:
        raise core.Inconclusive('relativedelta contract disagrees with dateutil: %r' % (bad[:3],))
    n2, bad2 = D.validate_parse()
    chk.extra['dateutil_parse_contract_validated_on_texts'] = n2
    if bad2:
        raise core.Inconclusive('ISO parse contract disagrees with dateutil: %r' % (bad2[:3],))
    hc.load_athlib(shims=SHIMS)
    import athlib.uka.agegroups  # noqa
    jobs = []
    for cat in ('TF', 'XC', 'ROAD'):
        for vets in (True, False):
            for underage in (True, False):
                jobs.append(('rule', cat, vets, underage))
                jobs.append(('monotone', cat, vets, underage))
        jobs.append(('options', cat))
        for pcat in (('TF', 'XC', 'ROAD') if not quick else (cat,)):
            jobs.append(('history', cat, pcat, True, True))
    if only:
        jobs = [j for j in jobs if j[0] == only]
    chk.functions = ['athlib.uka.agegroups.calc_uka_age_group', 'athlib.uka.agegroups.rule107_agegroups_trackandfield',
                     'athlib.uka.agegroups.rule507_agegroups_crosscountry', 'athlib.uka.agegroups.prior_date']
    chk.stubs = ['datetime.date(y, m, d): three integers, ValueError when invalid; dateutil relativedelta(a, b).years: whole months with day clipping, truncated toward '
                 'zero (arithmetic core compared with the real dateutil on %d date pairs this run)' % n,
                 "dateutil.parser.parse(text): only the ISO shape YYYY-MM-DD is modelled (midnight of that date)",
                 "'V%02d' % n: digit-cell rendering of a symbolic integer"]
    chk.bounds = {'competition_date': 'every valid date 1900-01-01 .. 2100-12-31 (symbolic year, month, day)', 'birth_date': 'every valid date not after the competition date and at most 110 calendar years before it',
                  'categories': ['TF', 'XC', 'ROAD'], 'vets': [True, False], 'underage': [True, False],
                  'tf_rule_text_window': 'competition dates 1 Jan - 30 Sep'}
    chk.bounds['history'] = 'one earlier call for the same birth date and another (symbolic) day of the same calendar month, then the call: same group as from a fresh import (library state put back inside the path for the reference answer)'
    chk.outside = ['birth dates after the competition date; ages above 110; category ESAA (NotImplementedError by design) and unknown categories; birth dates as non-ISO text']
    pool.run_jobs(chk, worker, jobs, chunksize=1)
    chk.extra['functions_loaded_through_hook'] = hc.functions_loaded()
