"""C11 - table-based junior scoring reproduces the published tables exactly.

Bit-precise: the mark is a 64-bit bit-vector k (centi-units); the double the
library sees is fp.div(RNE, to_fp(k), 100.0) - exactly what the literal 12.34,
float('12.34') and 1234/100 produce - or, for the m:ss.xx form, the double
parse_hms computes, 60*m (+) fl(j/100).  The real Tyrving / QuadKids /
Sportshall / Bulgarian code runs on IEEE-754 terms (QF_BVFP); the oracle is the
exact rational evaluation of the row (from the frozen reference tables) in
64-bit integer arithmetic; one cvc5 query per path asks for a k with
code(k) != oracle(k).  Table clauses (live == frozen reference, order inside
each table, keys normalised and reachable) are finite and checked exhaustively.
"""
import decimal
import json
import os
import sys
import time
from fractions import Fraction

import z3

from vlib import core, pool
from vlib.pool import JobResult
from harness import hc
from symrun import engine as E
from symrun.values import SymInt, SymFloat, fpval, RNE, F64
from symrun.shims.decimal_shim import SymDecimal

plain = hc.plain
BV = lambda n: z3.BitVecVal(n, 64)

SCRIPT = '''import sys, athlib, decimal
from fractions import Fraction
k = {k}
def call(perf):
    return CALL
perf = MARK
got = call(perf)
want = WANT
print(LABEL, 'mark', repr(perf), '->', got, 'exact evaluation of the table row gives', want)
sys.exit(0 if got == want else 1)
'''


def D(x):
    """the decimal a table constant denotes (shortest repr of the float, or the int itself)"""
    return Fraction(decimal.Decimal(repr(x)))


def load_reference():
    with open(os.path.join(core.VERIF, 'reference', 'tables.json')) as f:
        raw = json.load(f)

    def de(x):
        if isinstance(x, dict) and '__dict__' in x:
            return {(tuple(k) if isinstance(k, list) else k): de(v) for k, v in x['__dict__']}
        if isinstance(x, list):
            return [de(v) for v in x]
        return x
    return {k: de(v) for k, v in raw.items()}


# ------------------------------------------------------------------ oracle helpers (exact, 64-bit integers)
def floor_affine(c0, c1, k):
    """z3 BV: floor(c0 + c1*k) for Fractions c0, c1 and a bit-vector k >= 0 (|values| < 2**40: no overflow)"""
    q = c0.denominator * c1.denominator // __import__('math').gcd(c0.denominator, c1.denominator)
    p0 = int(c0 * q)
    p1 = int(c1 * q)
    num = BV(p0) + BV(p1) * k
    Q = BV(q)
    quo = num / Q                      # bvsdiv truncates toward zero
    rem = z3.SRem(num, Q)
    return z3.If(z3.And(rem != 0, num < 0), quo - 1, quo)


def clamp(t, lo, hi=None):
    t = z3.If(t < BV(lo), BV(lo), t)
    if hi is not None:
        t = z3.If(t > BV(hi), BV(hi), t)
    return t


def py_floor_affine(c0, c1, k):
    import math
    return math.floor(c0 + c1 * k)


# ------------------------------------------------------------------ per-system oracles: (z3 term builder, python source for the replay)
def tyrving_base(yv, age):
    if isinstance(yv, dict):
        return yv.get(age)
    y, v = yv
    return v[age - y] if y <= age < y + len(v) else None


def tyrving_oracle(kind, args, age, manual_inc=Fraction(0)):
    """returns f(k) -> BV term and a python lambda source computing the same on ints"""
    if kind == 'race':
        dist, mult, yv = args
        B = D(tyrving_base(yv, age))
        u = Fraction(1, 100) if dist <= 500 else Fraction(1, 10)
        m = D(mult)
        # 1000 + (B - (k/100 + inc)) * m / u
        c0 = 1000 + (B - manual_inc) * m / u
        c1 = -m / (100 * u)
        pieces = [(None, c0, c1)]
    elif kind == 'jump':
        mult, yv = args
        B = D(tyrving_base(yv, age))
        m = D(mult)
        c0 = 1000 - m * B * 100
        c1 = m
        pieces = [(None, c0, c1)]
    else:
        mults, yvs = args
        L = [D(tyrving_base(yv, age)) for yv in yvs]
        m0, m1, m2 = [D(x) for x in mults]
        # d0 = k - 100 L0 ; d1 = k - 100 L1
        pieces = [('d0>=0', 1000 - 100 * L[0] * m0, m0),
                  ('d1>0', 1000 - 100 * L[0] * m1, m1),
                  ('else', -100 * L[1] * m2 + L[2], m2)]
        thr = (100 * L[0], 100 * L[1])
    def term(k):
        if len(pieces) == 1:
            return clamp(floor_affine(pieces[0][1], pieces[0][2], k), 0)
        t0, t1 = thr
        a = clamp(floor_affine(pieces[0][1], pieces[0][2], k), 0)
        b = clamp(floor_affine(pieces[1][1], pieces[1][2], k), 0)
        c = clamp(floor_affine(pieces[2][1], pieces[2][2], k), 0)
        ge0 = (BV(t0.denominator) * k >= BV(t0.numerator))
        gt1 = (BV(t1.denominator) * k > BV(t1.numerator))
        return z3.If(ge0, a, z3.If(gt1, b, c))
    def src():
        if len(pieces) == 1:
            return 'max(0, __import__("math").floor(Fraction(%r) + Fraction(%r) * k))' % (str(pieces[0][1]), str(pieces[0][2]))
        return ('max(0, __import__("math").floor((Fraction(%r) + Fraction(%r) * k) if k >= Fraction(%r) else (Fraction(%r) + Fraction(%r) * k) if k > Fraction(%r) '
                'else (Fraction(%r) + Fraction(%r) * k)))' % (str(pieces[0][1]), str(pieces[0][2]), str(thr[0]), str(pieces[1][1]), str(pieces[1][2]), str(thr[1]),
                                                           str(pieces[2][1]), str(pieces[2][2])))
    return term, src()


def qkids_oracle(row, run):
    step, ref = D(row[0]), D(row[1])
    if run:
        c0 = ref / step + 10
        c1 = -1 / (100 * step)
    else:
        c0 = -ref / step + 10
        c1 = 1 / (100 * step)
    return (lambda k: clamp(floor_affine(c0, c1, k), 10, 100)), \
        'max(10, min(100, __import__("math").floor(Fraction(%r) + Fraction(%r) * k)))' % (str(c0), str(c1))


def bulgarian_oracle(table, timed):
    keys = sorted(k for k in table if isinstance(k, int))
    runs = []
    for k_ in keys:
        v = table[k_]
        if runs and runs[-1][2] == v and runs[-1][1] == k_ - 1:
            runs[-1][1] = k_
        else:
            runs.append([k_, k_, v])
    mn, mx = table['min'], table['max']

    def term(k):
        def tree(lo, hi):
            if lo == hi:
                return BV(runs[lo][2])
            mid = (lo + hi) // 2
            return z3.If(k <= BV(runs[mid][1]), tree(lo, mid), tree(mid + 1, hi))
        inner = tree(0, len(runs) - 1)
        if timed:
            return z3.If(k > BV(mn), BV(0), z3.If(k < BV(mx), BV(150), inner))
        return z3.If(k < BV(mn), BV(0), z3.If(k > BV(mx), BV(150), inner))
    if timed:
        src = '(0 if k > %d else 150 if k < %d else REF[k])' % (mn, mx)
    else:
        src = '(0 if k < %d else 150 if k > %d else REF[k])' % (mn, mx)
    return term, src


# ------------------------------------------------------------------ bodies
def mark_term(form, k, m=None):
    """the double the library computes from the mark"""
    if form == 'grid':
        return SymFloat(z3.fpDiv(RNE, z3.fpSignedToFP(RNE, k, F64), fpval(100.0)))
    if form == 'hms':
        # m:ss.xx -> parse_hms: sec = 60*m (exact int) ; sec += float('ss.xx')  => fp.add(to_fp(60 m), fl(j/100)), k = 6000 m + j
        # (minutes and centiseconds are separate variables so that no bit-vector division is needed)
        eng = E.cur()
        mm = z3.BitVec(eng.fresh_name('min'), 64)
        j = z3.BitVec(eng.fresh_name('cs'), 64)
        eng.add(z3.And(mm >= BV(0), mm <= BV(2000), j >= BV(0), j < BV(6000), k == mm * BV(6000) + j))
        return SymFloat(z3.fpAdd(RNE, z3.fpSignedToFP(RNE, mm * BV(60), F64), z3.fpDiv(RNE, z3.fpSignedToFP(RNE, j, F64), fpval(100.0))))
    raise ValueError(form)


def body_fp(callf, form, kmin, kmax, oracle_term, int_only=False):
    def body(R):
        eng = E.cur()
        k = z3.BitVec(eng.fresh_name('k'), 64)
        eng.add(z3.And(k >= BV(kmin), k <= BV(kmax)))
        ks = SymInt(k)
        R.partial = {'inputs': {'k': ks}}
        if form == 'int':
            # whole-number marks passed as python ints: k = 100 * n
            n = z3.BitVec(eng.fresh_name('n'), 64)
            eng.add(z3.And(n >= BV(0), n <= BV(kmax // 100 + 1), k == n * BV(100)))
            perf = SymInt(n)
        else:
            perf = mark_term(form, k)
        try:
            got = callf(perf)
        except Exception as e:
            raise hc.PathFail('raises', '%s: %s' % (type(e).__name__, str(e)[:80]))
        gt = got.term if isinstance(got, SymInt) else BV(got)
        eng.check(gt == oracle_term(k), 'exact')
        return {'inputs': {'k': ks}, 'observe': []}
    return body


# ------------------------------------------------------------------ jobs
CHUNK = 16384      # marks per solver query: a bounded k lets the solver fix the high bits (measured 7-22 s per chunk)


def chunks(kmin, kmax):
    out = []
    a = kmin
    while a <= kmax:
        b = min(kmax, (a // CHUNK + 1) * CHUNK - 1)
        out.append((a, b))
        a = b + 1
    return out


def build_jobs(athlib, ref, quick, rng):
    """every (row, input form, chunk of marks); the quick tier keeps all QuadKids / Bulgarian / Sportshall jobs and a seeded
    sample of the Tyrving chunks (always including the chunk around the 1000-point mark of the sampled rows)"""
    jobs = []
    ty = sys.modules['athlib.tyrving_score']
    tyr = []
    for g, d in ty._tyrvingTables.items():
        for ev, (kind, args) in d.items():
            yvs = args[-1]
            yv0 = yvs[0] if kind in ('stav', 'throw', 'pv') else yvs
            if isinstance(yv0, dict):
                ages = sorted(yv0)
            else:
                ages = list(range(yv0[0], yv0[0] + len(yv0[1])))
            for age in ages:
                base = tyrving_base(yv0, age)
                if kind == 'race':
                    kmax = int(base * 100 * 2.5)
                    forms = [('grid', 1), ('int', 100)] + ([('hms', 6000)] if kmax > 6000 else [])
                else:
                    kmax = 12000
                    forms = [('grid', 0)]
                for form, kmin in forms:
                    for (a, b) in chunks(kmin, kmax):
                        central = a <= int(base * 100) <= b
                        tyr.append((('tyrving', (g, age, ev), form, a, b), kind, central))
    if quick:
        central = [t for t in tyr if t[2] and t[0][2] == 'grid']
        rng.shuffle(central)
        picked = {}
        for t in central:                      # one central chunk per formula kind and a few more
            picked.setdefault(t[1], t)
        sel = list(picked.values()) + central[:18]
        rest = [t for t in tyr if t not in sel]
        rng.shuffle(rest)
        sel += rest[:22]
        jobs += [t[0] for t in sel]
    else:
        jobs += [t[0] for t in tyr]
    # history clause: the central chunk of a race row (number form) again, after one earlier call for the same row with a one-decimal
    # or whole-second text - hand-timed by Tyrving's convention, so a calculator object or flag kept between calls would show
    hist = [t for t in tyr if t[2] and t[0][2] == 'grid' and t[1] == 'race' and ty._tyrvingTables[t[0][1][0]][t[0][1][2]][1][0] <= 400]
    rng.shuffle(hist)
    seen_ev = set()
    for t in hist:
        (sysname, (g, age, ev), form, a, b) = t[0]
        if quick and (len(seen_ev) >= 4 or (g, ev) in seen_ev):
            continue
        if not quick and (g, ev, age) in seen_ev:
            continue
        seen_ev.add((g, ev) if quick else (g, ev, age))
        base = (a + b) // 200
        jobs.append(t[0] + ('%d.%d' % (base, 3),))
        if not quick:
            jobs.append(t[0] + ('%d' % base,))
    qk = sys.modules['athlib.qkids_score']
    codes = sys.modules['athlib.codes']
    for ct, d in qk._qkidsTables.items():
        for ev, row in d.items():
            run = codes.PAT_RUN.match(ev) is not None
            kmax = int(max(row[1], row[2]) * 100 * 2) + 500
            for (a, b) in chunks(0, kmax):
                jobs.append(('qkids', (ct, ev), 'grid', a, b))
            if run and kmax > 6000 and not quick:
                for (a, b) in chunks(6000, kmax):
                    jobs.append(('qkids', (ct, ev), 'hms', a, b))
    bg = sys.modules['athlib.bulgarian_score']
    import re as _re
    for key in bg.scores:
        m = _re.match(r'^(U\d\d)([MFX])(.+)$', key)
        t = bg.scores[key]
        mx = max(t['min'], t['max'])
        for (a, b) in chunks(0, mx * 2 + 500):
            jobs.append(('bulgarian', m.groups(), 'grid', a, b))
        if m.group(3) in ('600', '800'):
            for (a, b) in chunks(6000, mx * 2 + 500):
                jobs.append(('bulgarian', m.groups(), 'hms', a, b))
    sh = sys.modules['athlib.sportshall_score']
    for ev in sh.load_data():
        jobs.append(('sportshall-table', (ev,), 'decimal', 0, 0))
        jobs.append(('sportshall-beyond', (ev,), 'decimal', 1, 5000))
    return jobs


def call_and_oracle(system, params, form, ref):
    if system == 'tyrving':
        g, age, ev = params
        f = sys.modules['athlib.tyrving_score'].tyrving_score
        kind, args = ref['tyrving'][g][ev]
        term, src = tyrving_oracle(kind, args, age)
        return (lambda p: f(g, age, ev, p)), 'athlib.tyrving_score(%r, %r, %r, perf)' % (g, age, ev), term, src
    if system == 'qkids':
        ct, ev = params
        f = sys.modules['athlib.qkids_score'].qkids_score
        codes = sys.modules['athlib.codes']
        term, src = qkids_oracle(ref['qkids'][ct][ev], codes.PAT_RUN._real.match(ev) is not None)
        return (lambda p: f(ct, ev, p)), 'athlib.qkids_score(%r, %r, perf)' % (ct, ev), term, src
    if system == 'bulgarian':
        ag, g, ev = params
        f = sys.modules['athlib.bulgarian_score'].score
        timed = ev in ['60', '100', '200', '600', '800', '60H', '100H']
        term, src = bulgarian_oracle(ref['bulgarian'][ag + g + ev], timed)
        src = src.replace('REF', "dict((kk, vv) for kk, vv in [x for x in __import__('json').load(open(%r))['bulgarian']['__dict__'] if x[0] == %r][0][1]['__dict__'])" % (
            os.path.join(core.VERIF, 'reference', 'tables.json'), ag + g + ev))
        return (lambda p: f(ag, g, ev, p)), 'athlib.bulgarian_score(%r, %r, %r, perf)' % (ag, g, ev), term, src
    raise ValueError(system)


def worker(job):
    system, params, form, kmin, kmax = job[:5]
    prime = job[5] if len(job) > 5 else None          # history clause: the text of one earlier call for the same row
    t0 = time.time()
    res = JobResult()
    ref = _REF
    label = '%s%r form=%s' % (system, params, form) + (' after a call with %r' % (prime,) if prime is not None else '')
    if system.startswith('sportshall'):
        return sportshall_job(res, system, params[0], kmin, kmax, label, ref)
    callf, call_src, term, want_src = call_and_oracle(system, params, form, ref)
    if 'bulgarian' in system:
        want_src = "dict(map(tuple, %s))[k]" % want_src.split('REF')[0] if False else want_src
    mark_src = {'grid': 'k / 100', 'hms': "'%d:%05.2f' % (k // 6000, (k % 6000) / 100)", 'int': 'k // 100'}[form]
    script = SCRIPT.replace('CALL', call_src).replace('MARK', mark_src).replace('WANT', want_src).replace('LABEL', repr(label))
    if system == 'bulgarian':
        script = script.replace("REF[k]", "REF[k]")
    scripts = {'exact': script, 'raises': script.replace('got = call(perf)', 'try:\n    got = call(perf)\nexcept Exception as e:\n    got = repr(e)'),
               'unexpected-exception': 'import sys\nsys.exit(0)\n'}
    R = hc.Runner(res, plain(), call_src.split('(')[0], scripts, max_paths=64, deadline=time.time() + 3000, float_mode='F', int_bv=True, check_feasibility=False)
    R.inline = False
    R.fp_timeout_ms = 900000
    if prime is not None:
        def prime_body(R_):
            try:
                callf(prime)
            except Exception:
                pass
            return {'inputs': {}}
        R.prime_body = prime_body
        R.prime_script = 'import athlib\ntry:\n    %s\nexcept Exception:\n    pass\n' % call_src.replace('perf', repr(prime))
    try:
        R.explore(body_fp(callf, form, kmin, kmax, term), label)
    except E.Budget as e:
        res.inconclusive.append('%s: %s' % (label, e))
    res.extra['rows_' + system] = 1
    res.extra['seconds_' + system] = round(time.time() - t0, 1)
    res.extra['slow_jobs'] = [[label, round(time.time() - t0, 1)]] if time.time() - t0 > 60 else []
    return res


# ------------------------------------------------------------------ sportshall
def sportshall_job(res, system, ev, kmin, kmax, label, ref):
    sh = sys.modules['athlib.sportshall_score']
    f = sh.sportshall_score
    raw = ref['sportshall']
    col = raw[0].index(ev)
    info = {r[0]: r[col] for r in raw}
    high = ev in ['SLJ', 'SHJ', 'STJ', 'SP', 'BAL', 'SPB', 'TART', 'OHT', 'CHT', 'JT']
    p2p = []
    for pts in range(1, 81):
        v = info[str(pts)]
        if v != '-':
            p2p.append((pts, decimal.Decimal(('0.' + v.zfill(2)) if ev == 'SHJ' else v)))   # SHJ column is in centimetres
    inctext = info['increment']
    inc = None
    for suffix, scale in (('cm', Fraction(1, 100)), ('sec', 1), ('no.', 1), ('m', 1)):
        if inctext.endswith(suffix):
            inc = D(float(inctext[:-len(suffix)])) * scale
            break
    incpoints = 0 if info['incpoints'] == 'n/a' else int(info['incpoints'])
    maxp, maxv = p2p[-1]
    scale = 2
    PY_ORACLE = '''
import decimal
def oracle(perf):
    d = decimal.Decimal(perf)
    P2P = %r
    high = %r
    maxp, maxv = P2P[-1][0], decimal.Decimal(P2P[-1][1])
    beyond = d > maxv if high else d < maxv
    if beyond:
        inc = %r
        if inc is None: return maxp
        ex = (d - maxv) if high else (maxv - d)
        return maxp + int(Fraction(ex) // Fraction(inc)) * %d
    ok = [p for p, v in P2P if (d >= decimal.Decimal(v) if high else d <= decimal.Decimal(v))]
    return max(ok) if ok else 0
''' % ([(p, str(v)) for p, v in p2p], high, (str(inc) if inc is not None else None), incpoints)
    script = ('import sys, athlib\nfrom fractions import Fraction\nk = {k}\n' + PY_ORACLE +
              "perf = str(decimal.Decimal(k) / 100)\ngot = athlib.sportshall_score(%r, perf)\nwant = oracle(perf)\n"
              "print(%r, 'mark', perf, '->', got, 'table gives', want)\nsys.exit(0 if got == want else 1)\n" % (ev, label))
    scripts = {'exact': script, 'raises': script, 'unexpected-exception': 'import sys\nsys.exit(0)\n'}
    if system == 'sportshall-table':
        # inside the table: exact Decimal comparisons, integers only (z3 LIA)
        lo = int(min(v for _, v in p2p) * 100) - 50
        hi = int(max(v for _, v in p2p) * 100) + 50
        lo = max(lo, 0)
        R = hc.Runner(res, plain(), 'athlib.sportshall_score', scripts, max_paths=5000, deadline=time.time() + 900)

        def body(Rr):
            eng = E.cur()
            from symrun.values import symint
            k = symint('k', lo, hi)
            Rr.partial = {'inputs': {'k': k}}
            beyond = (k.term > int(maxv * 100)) if high else (k.term < int(maxv * 100))
            eng.add(z3.Not(beyond))
            try:
                got = f(ev, SymDecimal(k.term, scale))
            except Exception as e:
                raise hc.PathFail('raises', '%s: %s' % (type(e).__name__, str(e)[:80]))
            gt = got.term if isinstance(got, SymInt) else z3.IntVal(got)
            want = z3.IntVal(0)
            for pts, v in sorted(p2p):
                cond = (k.term >= int(v * 100)) if high else (k.term <= int(v * 100))
                want = z3.If(z3.And(cond, want < pts), z3.IntVal(pts), want)
            eng.check(gt == want, 'exact')
            return {'inputs': {'k': k}, 'observe': []}
        try:
            R.explore(body, label)
        except E.Budget as e:
            res.inconclusive.append('%s: %s' % (label, e))
    else:
        # beyond the table: float(excess)/increment + FUZZ, bit-precise
        R = hc.Runner(res, plain(), 'athlib.sportshall_score', scripts, max_paths=64, deadline=time.time() + 3000, float_mode='F', int_bv=True,
                      check_feasibility=False)
        R.inline = False

        def body(Rr):
            eng = E.cur()
            e = z3.BitVec(eng.fresh_name('e'), 64)
            eng.add(z3.And(e >= BV(kmin), e <= BV(kmax)))
            base = int(maxv * 100)
            k = (BV(base) + e) if high else (BV(base) - e)
            if not high:
                eng.add(k > BV(0))
            ks = SymInt(k)
            Rr.partial = {'inputs': {'k': ks}}
            try:
                got = f(ev, SymDecimal(k, scale))
            except Exception as ex:
                raise hc.PathFail('raises', '%s: %s' % (type(ex).__name__, str(ex)[:80]))
            gt = got.term if isinstance(got, SymInt) else BV(got)
            if inc is None:
                want = BV(maxp)
            else:
                q = inc * 100               # excess centi-units per step
                want = BV(maxp) + z3.UDiv(e * BV(q.denominator), BV(q.numerator)) * BV(incpoints)
            eng.check(gt == want, 'exact')
            return {'inputs': {'k': ks}, 'observe': []}
        try:
            R.explore(body, label)
        except E.Budget as e:
            res.inconclusive.append('%s: %s' % (label, e))
    res.extra['rows_sportshall'] = 1
    return res


# ------------------------------------------------------------------ table clauses (finite, exhaustive)
def table_clauses(chk, athlib, ref):
    ty = sys.modules['athlib.tyrving_score']
    qk = sys.modules['athlib.qkids_score']
    sh = sys.modules['athlib.sportshall_score']
    bg = sys.modules['athlib.bulgarian_score']

    def norm(x):
        if isinstance(x, dict):
            return {k: norm(v) for k, v in x.items()}
        if isinstance(x, (list, tuple)):
            return [norm(v) for v in x]
        return x

    def concrete(label, ok, detail, script):
        chk.obligations += 1
        if ok:
            chk.discharged += 1
            chk.trivial += 1
            return
        code, out = plain().run_script(script)
        if code == 1:
            chk.report({'label': label, 'func': 'athlib tables', 'kind': label.split(':')[0], 'args_text': detail, 'expected': 'see label', 'observed': out.strip()[-300:], 'script': script})
        else:
            chk.inconclusive_note('%s: %s did not reproduce (%s)' % (label, detail, out[-200:]))
    REFP = os.path.join(core.VERIF, 'reference', 'tables.json')
    LOAD = ("import sys, json, athlib, athlib.bulgarian_score\nraw = json.load(open(%r))\n"
            "def de(x):\n    if isinstance(x, dict) and '__dict__' in x: return {(tuple(k) if isinstance(k, list) else k): de(v) for k, v in x['__dict__']}\n"
            "    if isinstance(x, list): return [de(v) for v in x]\n    return x\n"
            "def norm(x):\n    if isinstance(x, dict): return {k: norm(v) for k, v in x.items()}\n    if isinstance(x, (list, tuple)): return [norm(v) for v in x]\n    return x\n"
            "ref = {k: de(v) for k, v in raw.items()}\n" % REFP)
    # (i) live tables equal the frozen reference
    for name, live, mod, attr in (('tyrving', ty._tyrvingTables, 'athlib.tyrving_score', '_tyrvingTables'), ('qkids', qk._qkidsTables, 'athlib.qkids_score', '_qkidsTables'),
                                  ('sportshall', sh.RAWDATA, 'athlib.sportshall_score', 'RAWDATA'), ('bulgarian', bg.scores, 'athlib.bulgarian_score', 'scores')):
        same = norm(live) == norm(ref[name])
        script = LOAD + ("live = norm(getattr(sys.modules[%r], %r))\nr = norm(ref[%r])\n"
                         "def diff(a, b, path=''):\n"
                         "    if isinstance(a, dict) and isinstance(b, dict):\n"
                         "        for k in sorted(set(a) | set(b), key=repr):\n"
                         "            if k not in a or k not in b: yield path + '/' + repr(k) + (' missing in live' if k not in a else ' not in reference')\n"
                         "            else: yield from diff(a[k], b[k], path + '/' + repr(k))\n"
                         "    elif isinstance(a, list) and isinstance(b, list) and len(a) == len(b):\n"
                         "        for i, (x, y) in enumerate(zip(a, b)): yield from diff(x, y, path + '[%%d]' %% i)\n"
                         "    elif a != b: yield '%%s: live %%r, reference %%r' %% (path, a, b)\n"
                         "d = list(diff(live, r))\nprint(%r, 'cells differing from the reference:', d[:5])\nsys.exit(1 if d else 0)\n" % (mod, attr, name, name))
        concrete('table-differs:%s' % name, same, name, script)
    # (ii) order inside each table
    import re as _re
    for key, t in bg.scores.items():
        ev = _re.match(r'^(U\d\d)([MFX])(.+)$', key).group(3)
        timed = ev in ['60', '100', '200', '600', '800', '60H', '100H']
        ks = sorted(k for k in t if isinstance(k, int))
        bad = [(a, t[a], b, t[b]) for a, b in zip(ks, ks[1:]) if (t[a] < t[b] if timed else t[a] > t[b])]
        holes = [(a, b) for a, b in zip(ks, ks[1:]) if b != a + 1] + ([('min/max', t['min'], t['max'], ks[0], ks[-1])] if {t['min'], t['max']} != {ks[0], ks[-1]} else [])
        script = ("import sys, athlib, athlib.bulgarian_score\nt = sys.modules['athlib.bulgarian_score'].scores[%r]\nks = sorted(k for k in t if isinstance(k, int))\n"
                  "timed = %r\nbad = [(a, t[a], b, t[b]) for a, b in zip(ks, ks[1:]) if (t[a] < t[b] if timed else t[a] > t[b])]\n"
                  "holes = [(a, b) for a, b in zip(ks, ks[1:]) if b != a + 1]\nprint(%r, 'out of order:', bad[:4], 'holes:', holes[:4])\nsys.exit(1 if bad or holes else 0)\n" % (key, timed, key))
        rec_detail = '%s %s' % (key, (bad + holes)[:3])
        chk.obligations += 1
        if not bad and not holes:
            chk.discharged += 1
            chk.trivial += 1
        else:
            code, out = plain().run_script(script)
            if code == 1:
                chk.report({'label': 'table-order', 'func': 'athlib.bulgarian_score', 'kind': 'table-order', 'args_text': rec_detail, 'job': 'table %s' % key,
                            'expected': 'better marks, more points; no missing rows', 'observed': out.strip()[-300:], 'script': script})
    db = sh.load_data()
    for ev, info in db.items():
        high = ev in ['SLJ', 'SHJ', 'STJ', 'SP', 'BAL', 'SPB', 'TART', 'OHT', 'CHT', 'JT']
        vals = [(p, decimal.Decimal(v)) for p, v in info['perf2points']]
        bad = [(a, b) for a, b in zip(vals, vals[1:]) if (a[1] > b[1] if high else a[1] < b[1]) or a[0] >= b[0]]
        script = ("import sys, decimal, athlib\nfrom athlib.sportshall_score import load_data\ninfo = load_data()[%r]\nhigh = %r\n"
                  "vals = [(p, decimal.Decimal(v)) for p, v in info['perf2points']]\n"
                  "bad = [(a, b) for a, b in zip(vals, vals[1:]) if (a[1] > b[1] if high else a[1] < b[1]) or a[0] >= b[0]]\nprint(%r, bad[:4])\nsys.exit(1 if bad else 0)\n" % (ev, high, ev))
        concrete('table-order:sportshall', not bad, '%s %s' % (ev, bad[:2]), script)
    for g, d in ty._tyrvingTables.items():
        for ev, (kind, args) in d.items():
            # base performances improve with age (younger athletes need less for 1000 points)
            pass
    # (iii) every table key is a normalised event code and reaches its row through the public function
    keys = []
    for g, d in ty._tyrvingTables.items():
        for ev, (kind, args) in d.items():
            yv0 = args[-1][0] if kind in ('stav', 'throw', 'pv') else args[-1]
            age = sorted(yv0)[0] if isinstance(yv0, dict) else yv0[0]
            base = tyrving_base(yv0, age)
            keys.append(('tyrving', ev, 'athlib.tyrving_score(%r, %r, %r, %r)' % (g, age, ev, base)))
    for ct, d in qk._qkidsTables.items():
        for ev, row in d.items():
            keys.append(('qkids', ev, 'athlib.qkids_score(%r, %r, %r)' % (ct, ev, row[1])))
    for ev, info in db.items():
        keys.append(('sportshall', ev, 'athlib.sportshall_score(%r, %r)' % (ev, info['perf2points'][0][1])))
    for key, t in bg.scores.items():
        m = _re.match(r'^(U\d\d)([MFX])(.+)$', key)
        keys.append(('bulgarian', m.group(3), 'athlib.bulgarian_score(%r, %r, %r, %r)' % (m.group(1), m.group(2), m.group(3), t['min'] / 100)))
    for where, ev, call in keys:
        script = ("import sys, athlib\nev = %r\ntry:\n    n = athlib.normalize_event_code(ev)\nexcept Exception as e:\n    n = repr(e)\n"
                  "try:\n    r = %s\nexcept Exception as e:\n    r = repr(e)\nprint(%r, ev, 'normalises to', n, '; row reached:', r)\n"
                  "sys.exit(0 if n == ev and isinstance(r, int) else 1)\n" % (ev, call, where))
        try:
            ok = athlib.normalize_event_code(ev) == ev and isinstance(eval(call, {'athlib': athlib}), int)
        except Exception:
            ok = False
        concrete('table-key:%s' % where, ok, '%s %s' % (where, ev), script)


_REF = None


def run(chk, only=None):
    global _REF
    import random
    athlib = hc.load_athlib()
    import athlib.bulgarian_score  # noqa
    quick = chk.tier == 'quick'
    _REF = load_reference()
    rng = random.Random(chk.seed)
    jobs = build_jobs(athlib, _REF, quick, rng)
    if only:
        jobs = [j for j in jobs if j[0].startswith(only) or (only == 'history' and len(j) > 5)]
    chk.functions = ['athlib.tyrving_score.tyrving_score / TyrvingCalculator.race_points / jump_points / stav_points', 'athlib.qkids_score.qkids_score',
                     'athlib.sportshall_score.sportshall_score / score_high_event / score_low_event / load_data', 'athlib.bulgarian_score.score', 'athlib.utils.parse_hms']
    chk.stubs = ['IEEE-754 double, round-to-nearest-even, bit-precise (QF_BVFP): + - * / comparisons, int()/floor as fp.to_sbv; decided by cvc5 1.0.3 (z3 5.1 if cvc5 answers unknown)',
                 'a mark on the 0.01 grid is fp.div(to_fp(k), 100.0); the m:ss.xx form is the double parse_hms computes, fp.add(to_fp(60 m), fl(j/100)); whole numbers as python ints',
                 'the text -> double step itself (float(str) correctly rounded) is the assumption that links text input to these doubles; Tyrving one-decimal texts (hand timing) are C05/C18',
                 'oracle: exact rational evaluation of the row of the frozen reference tables (reference/tables.json, the stand-in for the published tables) in 64-bit integers (ranges exclude overflow)']
    chk.bounds = {'rows': len(jobs), 'marks': 'k from 0 (1 for times) to 2-2.5 x the tabulated extreme of the row; sportshall: the whole table range and 1..5000 centi-units beyond its end',
                  'tyrving_rows': 'seeded sample of (row, age, form, chunk) jobs: each formula kind at its 1000-point mark, 18 more central chunks, 22 arbitrary ones' if quick else 'every row, age, form and chunk',
                  'chunk': '%d marks per solver query' % CHUNK}
    chk.outside = ['marks not on the 0.01 grid', 'last-bit behaviour of text parsing (assumed correctly rounded)']
    if not only:
        table_clauses(chk, athlib, _REF)
    print('C11: %d solver jobs' % len(jobs), flush=True)
    pool.run_jobs(chk, worker, jobs, chunksize=1, progress=50)
    chk.extra['functions_loaded_through_hook'] = hc.functions_loaded()
