"""Shared harness machinery: loading athlib through the hook, turning solver
models into concrete inputs, witness validation and counterexample replay."""
import fractions
import json
import sys
import time

import z3

from vlib import core
from vlib.pool import JobResult
from symrun import engine as E
from symrun import hook

_athlib = None
_plain = (None, None)


def plain():
    """the plain-library worker of THIS process (never shared across fork())"""
    global _plain
    import os
    if _plain[0] != os.getpid():
        _plain = (os.getpid(), core.PlainWorker())
    return _plain[1]


def load_athlib(shims=None, extra_namespace=None):
    """install the import hook and import the real athlib source through it"""
    global _athlib
    if _athlib is None:
        hook.install(shims, extra_namespace)
        import athlib
        _athlib = athlib
    return _athlib


def functions_loaded():
    return sorted(set(hook.LOADED))


# ------------------------------------------------------------------ models -> concrete
def conc(model, v):
    """evaluate a (possibly symbolic) value under a z3 model -> plain python value"""
    from symrun.values import SymInt, SymFloat, SymBool
    from symrun.strings import SymStr, Cell, Opaque
    from symrun.shims.decimal_shim import SymDecimal
    if isinstance(v, SymStr):
        out = []
        for c in v.cells:
            if isinstance(c, str):
                out.append(c)
            else:
                b = model.eval(c.var, model_completion=True).as_long()
                if b not in c.fmap:
                    b = sorted(c.fmap)[0]
                out.append(c.fmap[b])
        return ''.join(out)
    if isinstance(v, SymInt):
        r = model.eval(v.term, model_completion=True)
        if not (z3.is_bv_value(r) or z3.is_int_value(r)):
            r = z3.simplify(r)
            if not (z3.is_bv_value(r) or z3.is_int_value(r)):
                raise core.Inconclusive('cannot read integer model value %s' % r)
        return r.as_signed_long() if z3.is_bv_value(r) else r.as_long()
    if isinstance(v, SymBool):
        return z3.is_true(model.eval(v.term, model_completion=True))
    if isinstance(v, SymFloat):
        r = model.eval(v.term, model_completion=True)
        if z3.is_fp(r):
            r = z3.simplify(r)
            if z3.is_fprm_value(r):
                raise core.Inconclusive('rm value')
            if r.isNaN():
                return float('nan')
            if r.isInf():
                return float('-inf') if r.isNegative() else float('inf')
            import struct
            sign = 1 if r.isNegative() or (r.sign() if hasattr(r, 'sign') else False) else 0
            bits = (int(r.sign()) << 63) | (r.exponent_as_long(biased=True) << 52) | r.significand_as_long()
            return struct.unpack('<d', struct.pack('<Q', bits))[0]
        if z3.is_rational_value(r):
            return float(fractions.Fraction(r.numerator_as_long(), r.denominator_as_long()))
        if z3.is_algebraic_value(r):
            r = r.approx(30)
            return float(fractions.Fraction(r.numerator_as_long(), r.denominator_as_long()))
        raise core.Inconclusive('cannot read float model value %s' % r)
    if isinstance(v, SymDecimal):
        import decimal
        if isinstance(v.num, int):
            n = v.num
        else:
            r = model.eval(v.num, model_completion=True)
            n = r.as_signed_long() if z3.is_bv_value(r) else r.as_long()
        return decimal.Decimal(n).scaleb(-v.scale)
    if isinstance(v, Opaque):
        return '<opaque>'
    if isinstance(v, tuple):
        return tuple(conc(model, x) for x in v)
    if isinstance(v, list):
        return [conc(model, x) for x in v]
    if isinstance(v, dict):
        return {k: conc(model, x) for k, x in v.items()}
    return v


def symstr_eq_term(a, b):
    """z3 Bool: two (Sym)strings are equal character by character (no forking)"""
    from symrun.strings import SymStr, Cell
    ac = SymStr.lift(a).cells
    bc = SymStr.lift(b).cells
    if len(ac) != len(bc):
        return z3.BoolVal(False)
    parts = []
    for x, y in zip(ac, bc):
        if isinstance(x, str) and isinstance(y, str):
            if x != y:
                return z3.BoolVal(False)
            continue
        tx = z3.IntVal(ord(x)) if isinstance(x, str) else x.term()
        ty = z3.IntVal(ord(y)) if isinstance(y, str) else y.term()
        parts.append(tx == ty)
    return z3.And(parts) if parts else z3.BoolVal(True)


def block_inputs(sym_inputs, model):
    """z3 Bool excluding exactly the concrete input the model describes (None if the inputs have no symbolic part)"""
    from symrun.values import SymInt, SymBool
    from symrun.strings import SymStr, Cell
    parts = []
    for v in sym_inputs.values():
        if isinstance(v, SymInt):
            parts.append(v.term != model.eval(v.term, model_completion=True))
        elif isinstance(v, SymBool):
            parts.append(v.term != model.eval(v.term, model_completion=True))
        elif isinstance(v, SymStr):
            for c in v.cells:
                if isinstance(c, Cell):
                    parts.append(c.var != model.eval(c.var, model_completion=True))
    return z3.Or(parts) if parts else None


_KNOWN = None


def _known_matcher():
    """matcher over known_findings.json usable inside pool workers (same rule as Check.match_known)"""
    global _KNOWN
    if _KNOWN is None:
        _KNOWN = [k for k in core.load_known_findings() if k.get('status') == 'known']
    import re as _re

    def match(rec):
        for k in _KNOWN:
            m = k['match']
            if m.get('func') and m['func'] != rec.get('func'):
                continue
            if m.get('kind') and m['kind'] != rec.get('kind'):
                continue
            if m.get('args_regex') and not _re.search(m['args_regex'], rec.get('args_text', '')):
                continue
            if m.get('label_regex') and not _re.search(m['label_regex'], rec.get('label', '')):
                continue
            if m.get('job_regex') and not _re.search(m['job_regex'], rec.get('job', '')):
                continue
            if m.get('observed_regex') and not _re.search(m['observed_regex'], rec.get('observed', '')):
                continue
            if m.get('py') and not core._known_py(m['py'], rec):
                continue
            return k
        return None
    return match


def reset_library_state():
    """put athlib's module state back to the snapshot in the middle of a path (and forget the stores made under symbolic keys):
    what is computed next is the answer of a fresh import - the reference side of a history clause"""
    from symrun import state
    state.get().restore()
    E.cur().symstore.clear()


# source of a helper for replay scripts: evaluate an expression in a forked child BEFORE anything else is called, i.e. with the
# library state of a fresh import, without touching the state of the script's own process
FRESH_SRC = '''
def fresh(fn):
    import os
    r, w = os.pipe()
    pid = os.fork()
    if pid == 0:
        try:
            out = ('value', repr(fn()))
        except Exception as e:
            out = ('raises', type(e).__name__)
        os.write(w, repr(out).encode())
        os._exit(0)
    os.close(w)
    data = b''
    while True:
        b = os.read(r, 65536)
        if not b:
            break
        data += b
    os.waitpid(pid, 0)
    return eval(data.decode())
def here(fn):
    try:
        return ('value', repr(fn()))
    except Exception as e:
        return ('raises', type(e).__name__)
'''


class PathFail(Exception):
    """raised by a harness body to end the path with a concretely decided violation"""

    def __init__(self, label, detail=''):
        Exception.__init__(self, label)
        self.label = label
        self.detail = detail


class Runner:
    """Runs one harness body over all paths inside a pool worker and converts the
    outcome into a JobResult.

    body() -> dict(inputs={name: symbolic value}, observe=[(python expr over the input names, symbolic result
              or ('raises', ExcName))], fails=[(label, detail)])
    scripts: {label: python source template}; the template is formatted with the repr of the concrete
             inputs and must exit 1 iff the violation shows on the plain library.
    """

    def __init__(self, res, plain, func, scripts, max_paths=4000, deadline=None, float_mode='R', int_bv=False,
                 check_feasibility=True, witness_every=1, solver_name=None, r_axioms=None):
        self.r_axioms = r_axioms
        self.known_matcher = _known_matcher()
        self.fp_timeout_ms = 600000
        self.inline = True
        self.last_known_id = None
        self.res = res
        self.plain = plain
        self.func = func
        self.scripts = scripts
        self.max_paths = max_paths
        self.deadline = deadline
        self.float_mode = float_mode
        self.int_bv = int_bv
        self.check_feasibility = check_feasibility
        self.witness_every = witness_every
        self.solver_name = solver_name or 'z3-%s' % z3.get_version_string()
        self.sample_budget = 2
        self.prime_body = None          # another harness body run first in every path (its clauses muted): call-history clause, see prime()
        self.prime_inputs = None
        self.prime_script = None        # replay text of the priming call (template over the priming inputs); default: a clause script
        self.witness_prelude = ''       # python source run before every witness expression (helpers of the harness)
        self.witness_setup = None       # template that defines the names the witness expressions use from the concrete inputs

    def explore(self, body, job_label):
        eng = E.Engine(max_paths=self.max_paths, deadline=self.deadline, float_mode=self.float_mode,
                       int_bv=self.int_bv, check_feasibility=self.check_feasibility, inline=self.inline)
        self.eng = eng
        if self.r_axioms is not None:
            eng.r_axioms = self.r_axioms
        eng.small_ints = getattr(self, 'small_ints', False)
        eng.fallback = self.float_mode == 'R'
        res = self.res
        state = {'out': None}

        def fn():
            state['out'] = None
            state['fails'] = []
            self.cur_fails = state['fails']
            self.prime_inputs = None
            if self.prime_body is not None:
                self._run_prime()
            out = body(self)
            if self.prime_body is not None and out:
                # the witness of a primed path is only meaningful after the priming call: not compared in the long-lived process
                out = dict(out, observe=[], witness_script=None)
            state['out'] = out
            return out

        def on_path(p):
            out = state['out']
            fails = list(state['fails'])
            if isinstance(p.exc, PathFail):
                fails.append((p.exc.label, p.exc.detail))
                out = getattr(p.exc, 'out', None) or self.partial
            elif p.exc is not None:
                fails.append(('unexpected-exception', '%s: %s' % (type(p.exc).__name__, str(p.exc)[:200])))
                out = self.partial
            m = eng.model() if self.float_mode != 'F' else 'skip'
            fp_mode = False
            if m == 'skip':
                # bit-precise mode: the path condition was never checked during exploration; one cvc5 query gives the
                # reachability verdict and a witness
                fp_mode = True
                from symrun import cvc5_backend
                t0 = time.time()
                r, m = cvc5_backend.check(list(p.pc), [], self.fp_timeout_ms)
                res.add_query('cvc5-binary', 1, time.time() - t0)
                if r == 'unsat':
                    m = False
                elif r != 'sat':
                    m = None
            if m is False:
                eng.n_paths -= 1
                p.feasible = False
                return
            if m is None:
                res.inconclusive.append('%s: solver unknown on path condition' % job_label)
                return
            res.reach_sat += 1
            self._cur_history = self._prime_history(m) if self.prime_body is not None else None
            inputs = {k: conc(m, v) for k, v in (out or {}).get('inputs', {}).items()}
            # witness validation: symbolic result under the model == plain library on the concrete input
            if out and not fails and m is not None and (p.pid % self.witness_every == 0):
                for expr, symval in out.get('observe', []):
                    self._witness(job_label, m, inputs, expr, symval)
            if out and out.get('witness_script') and m is not None and not fails and (p.pid % self.witness_every == 0):
                script = out['witness_script'].format(**{k: repr(v) for k, v in inputs.items()})
                code, wout = self.plain.run_script(script)
                if code == 0:
                    res.witness_replays += 1
                elif code == 1:
                    # the witness history itself violates a clause on the plain library (concrete, reproduced)
                    res.obligations += 1
                    res.records.append({'label': 'witness-history', 'func': self.func, 'kind': 'witness-history', 'args_text': wout.strip()[-400:],
                                        'expected': 'the rules hold along the history that builds the witness pre-state', 'observed': wout.strip()[-400:],
                                        'script': script, 'job': job_label})
                else:
                    res.inconclusive.append('%s: witness pre-state could not be rebuilt through the public API as modelled [exit %s] %s' % (job_label, code, wout.strip()[-300:]))
            # obligations
            for ob in p.obligations:
                res.obligations += 1
                if ob.status is None and not eng.inline:
                    self._discharge_deferred(ob)
                if ob.status == 'trivial':
                    res.trivial += 1
                    res.discharged += 1
                elif ob.status == 'unsat':
                    res.discharged += 1
                elif ob.status == 'sat':
                    sym_inputs = (out or {}).get('inputs', {})
                    model = ob.model
                    blocks = []
                    for attempt in range(800):
                        ins = {k: conc(model, v) for k, v in sym_inputs.items()}
                        if self.prime_body is not None:
                            self._cur_history = self._prime_history(model)
                        verdict = self._counterexample(job_label, ob.label, ins, '' if isinstance(ob.info, dict) else str(ob.info or ''),
                                                       quiet=(eng.float_mode == 'R' or getattr(eng, 'overapprox_used', False) or getattr(eng, 'exact_floats', False)))
                        if verdict in ('violation', 'inconclusive'):
                            break
                        if verdict == 'spurious':
                            # reals-with-rounding over-approximates doubles: a model that does not reproduce is excluded and
                            # another one requested; only if none reproduces the obligation stays inconclusive
                            if attempt >= (30 if eng.float_mode != 'F' else 10):
                                res.inconclusive.append('%s: %d candidate counterexamples for %s did not reproduce (float abstraction too coarse)' % (job_label, attempt, ob.label))
                                break
                        # a recorded known finding: exclude exactly this input and ask again, so that any other
                        # violation of the same clause on this path is still found
                        b = None
                        if verdict == 'known' and isinstance(ob.info, dict) and self.last_known_id in ob.info.get('known_class', {}):
                            # the harness supplied the recorded class as a symbolic predicate: exclude the whole class at once
                            b = z3.Not(ob.info['known_class'][self.last_known_id])
                            if any(b.eq(x) for x in blocks):
                                res.inconclusive.append('%s: a counterexample of %s matches known finding %s but lies outside its symbolic class' % (job_label, ob.label, self.last_known_id))
                                break
                        if b is None:
                            b = block_inputs(sym_inputs, model)
                        if b is None:
                            res.inconclusive.append('%s: cannot exclude the known counterexample of %s' % (job_label, ob.label))
                            break
                        blocks.append(b)
                        r, model = eng.resolve(ob, blocks)
                        if r == 'unsat':
                            res.discharged += 1
                            key = 'obligations_discharged_modulo_known_findings' if verdict == 'known' else 'obligations_discharged_after_excluding_spurious_models'
                            res.extra[key] = res.extra.get(key, 0) + 1
                            break
                        if r != 'sat':
                            res.inconclusive.append('%s: obligation %s after excluding a known finding: solver %s' % (job_label, ob.label, r))
                            break
                    else:
                        res.inconclusive.append('%s: more than 800 known-finding counterexamples for %s on one path' % (job_label, ob.label))
                else:
                    res.inconclusive.append('%s: obligation %s: solver %s' % (job_label, ob.label, ob.status))
            for (label, detail) in fails:
                res.obligations += 1
                approx = eng.float_mode == 'R' or getattr(eng, 'overapprox_used', False) or getattr(eng, 'exact_floats', False)
                verdict = self._counterexample(job_label, label, inputs, detail, quiet=approx)
                if verdict == 'spurious':
                    # a path-level failure whose witness does not reproduce under a float abstraction: try the other witnesses of the path
                    sym_inputs = (out or {}).get('inputs', {})
                    blocks = []
                    mdl = m
                    for attempt in range(24):
                        b = block_inputs(sym_inputs, mdl)
                        if b is None:
                            res.inconclusive.append('%s: %s did not reproduce and the path has no symbolic input to vary' % (job_label, label))
                            break
                        blocks.append(b)
                        eng.solver.push()
                        try:
                            for x in blocks:
                                eng.solver.add(x)
                            r = eng._check()
                            mdl = eng.last_model
                        finally:
                            eng.solver.pop()
                        if r == 'unsat':
                            res.discharged += 1
                            res.extra['paths_spurious_under_float_abstraction'] = res.extra.get('paths_spurious_under_float_abstraction', 0) + 1
                            break
                        if r != 'sat':
                            res.inconclusive.append('%s: %s: solver %s while looking for a reproducing witness' % (job_label, label, r))
                            break
                        ins2 = {k: conc(mdl, v) for k, v in sym_inputs.items()}
                        if self.prime_body is not None:
                            self._cur_history = self._prime_history(mdl)
                        v2 = self._counterexample(job_label, label, ins2, detail, quiet=True)
                        if v2 != 'spurious':
                            break
                    else:
                        res.inconclusive.append('%s: 24 witnesses of a failing path for %s did not reproduce (float abstraction too coarse)' % (job_label, label))
            if self.sample_budget > 0 and out:
                self.sample_budget -= 1
                res.samples.append({'job': job_label, 'path_decisions': len(p.decisions),
                                    'witness_input': {k: repr(v) for k, v in inputs.items()},
                                    'obligations': [(o.label, o.status) for o in p.obligations][:8]})

        self.partial = None
        eng.explore(fn, on_path)
        res.paths += eng.n_paths
        if eng.n_state_restores:
            res.extra['paths_after_which_library_module_state_was_put_back'] = res.extra.get('paths_after_which_library_module_state_was_put_back', 0) + eng.n_state_restores
        if eng.n_reordered:
            res.extra['replayed_decisions_equal_only_up_to_solver_checked_equivalence'] = res.extra.get('replayed_decisions_equal_only_up_to_solver_checked_equivalence', 0) + eng.n_reordered
        res.add_query(self.solver_name, eng.n_solver_calls, eng.solver_time)
        if eng.n_fallback_calls:
            res.add_query('cvc5-binary(fallback after z3 unknown)', eng.n_fallback_calls, 0.0)
        return eng

    def _run_prime(self):
        """history clause: run the priming body with fresh symbolic inputs of its own, keep only the library state it leaves
        (module state is restored before every path, so the main body then runs in exactly 'fresh import + one earlier call')"""
        eng = self.eng
        eng.mute = True
        keep_fails = list(self.cur_fails)
        try:
            try:
                out = self.prime_body(self)
            except PathFail as e:
                out = getattr(e, 'out', None) or self.partial
            except Exception:
                out = self.partial
        finally:
            eng.mute = False
        self.cur_fails[:] = keep_fails
        self.prime_inputs = (out or {}).get('inputs', {})
        self.partial = None

    def _prime_history(self, model):
        """the priming call of this path as a replayable history entry (a clause script instantiated with the priming inputs)"""
        if self.prime_script is not None:
            ins = {k: repr(conc(model, v)) for k, v in (self.prime_inputs or {}).items()}
            return [('script', self.prime_script.format(**ins), None)]
        if not self.prime_inputs:
            return None
        ins = {k: repr(conc(model, v)) for k, v in self.prime_inputs.items()}
        for label, tmpl in self.scripts.items():
            try:
                return [('script', tmpl.format(**ins), None)]
            except (KeyError, IndexError):
                continue
        return None

    def _discharge_deferred(self, ob):
        """bit-precise obligations: PC & not(prop) as SMT-LIB text to cvc5 (QF_BVFP / UF), z3 as second try"""
        from symrun import cvc5_backend
        t = time.time()
        r, m = cvc5_backend.check(list(ob.pc), [z3.Not(ob.prop)], self.fp_timeout_ms)
        self.res.add_query('cvc5-binary', 1, time.time() - t)
        if r == 'unknown':
            t = time.time()
            s = z3.Solver()
            s.set('timeout', self.fp_timeout_ms)
            for c in ob.pc:
                s.add(c)
            s.add(z3.Not(ob.prop))
            r = str(s.check())
            m = s.model() if r == 'sat' else None
            self.res.add_query('z3-%s(after cvc5 unknown)' % z3.get_version_string(), 1, time.time() - t)
        ob.status = r
        ob.model = m

    def fail(self, label, detail=''):
        self.cur_fails.append((label, detail))

    def _witness(self, job_label, m, inputs, expr, symval):
        setup = '\n'.join('%s = %r' % (k, v) for k, v in inputs.items())
        if self.witness_setup is not None:
            setup = self.witness_setup.format(**{k: repr(v) for k, v in inputs.items()})
        setup = self.witness_prelude + setup
        try:
            got = self.plain.eval(expr, setup)
        except core.Inconclusive as e:
            self.res.inconclusive.append(str(e))
            return
        if isinstance(symval, tuple) and len(symval) == 2 and symval[0] == 'raises':
            ok = (not got['ok']) and got['exc'] == symval[1]
            want = 'raises %s' % symval[1]
        else:
            try:
                want_v = conc(m, symval)
            except core.Inconclusive:
                if self.eng.float_mode == 'R' and (self.eng.r_apps or self.eng.pw_apps):
                    # the model leaves an application of the rounding function unevaluated: nothing concrete to compare
                    self.res.extra['witness_values_through_float_abstraction_not_compared'] = \
                        self.res.extra.get('witness_values_through_float_abstraction_not_compared', 0) + 1
                    return
                raise
            want = repr(want_v)
            if got['ok']:
                ok = got['repr'] == want or _close(got, want_v)
            else:
                ok = False
        if ok:
            self.res.witness_replays += 1
        elif (self.eng.float_mode == 'R' and (self.eng.r_apps or self.eng.pw_apps)) or self.eng.overapprox_used:
            # the reals-with-rounding model over-approximates doubles: a model may pick any rounding the
            # axioms allow, so a concrete value that went through R()/PW() need not equal the real one
            self.res.extra['witness_values_through_float_abstraction_not_compared'] = \
                self.res.extra.get('witness_values_through_float_abstraction_not_compared', 0) + 1
        else:
            if self._history_violation(job_label, m, inputs, expr, setup, symval, want, got):
                return
            self.res.inconclusive.append('%s: ENCODING MISMATCH on witness %s: %s -> symbolic %s, real %s' % (
                job_label, inputs, expr, want, got.get('repr') if got['ok'] else 'raises ' + got['exc']))

    def _agrees(self, m, symval, got):
        if isinstance(symval, tuple) and len(symval) == 2 and symval[0] == 'raises':
            return (not got['ok']) and got['exc'] == symval[1]
        want_v = conc(m, symval)
        return bool(got['ok'] and (got['repr'] == repr(want_v) or _close(got, want_v)))

    def _history_violation(self, job_label, m, inputs, expr, setup, symval, want, got):
        """The long-lived plain process disagrees with the symbolic result.  If a *fresh* process agrees with the
        symbolic result, the library's answer depends on the calls made earlier in the process (a cache, a lazily filled
        table, scratch state): the earlier calls are reduced to a short history and every clause script of the harness is run
        after that history in a fresh process; one that fails is a reproduced violation (replay = history + clause script)."""
        if getattr(self, '_history_probes', 0) >= 4:
            return False
        self._history_probes = getattr(self, '_history_probes', 0) + 1

        def show(g):
            return g.get('repr') if g['ok'] else 'raises ' + g['exc']
        try:
            g0 = core.fresh_eval(expr, setup)
            if show(g0) == show(got) or not self._agrees(m, symval, g0):
                return False            # not history: the encoding (or the harness) is wrong
            log = list(self.plain.log[:-1])
            hist = core.minimal_history(log, lambda h: show(core.fresh_eval(expr, setup, h)) == show(got))
        except core.Inconclusive:
            return False
        if hist is None:
            self.res.inconclusive.append('%s: %s gives %s in a fresh process and %s in the replay process, but replaying the recorded calls does not reproduce it' % (
                job_label, expr, show(g0), show(got)))
            return True
        args_text = ', '.join('%s=%r' % (k, v) for k, v in sorted(inputs.items()))
        hist_text = '; '.join((h[1] if h[0] == 'eval' else '<script>') + (' [%s]' % h[2].replace('\n', '; ') if h[0] == 'eval' and h[2] else '') for h in hist[-3:])
        for label, tmpl in self.scripts.items():
            try:
                script = tmpl.format(**{k: repr(v) for k, v in inputs.items()})
            except (KeyError, IndexError):
                continue
            code0, _ = core.fresh_script(script)
            if code0 != 0:
                continue
            code, out = core.fresh_script(script, hist)
            if code == 1:
                self.res.obligations += 1
                rec = {'label': label, 'func': self.func, 'kind': label.split(':')[0], 'args_text': args_text + ' after ' + hist_text,
                       'expected': 'the answer of a fresh process (%s), whatever was called before' % show(g0),
                       'observed': '%s after %d earlier call(s): %s' % (show(got), len(hist), out.strip()[-200:]),
                       'script': core.history_prelude(hist) + script, 'model': {k: repr(v) for k, v in inputs.items()},
                       'job': job_label, 'history': [list(h) for h in hist[-20:]]}
                km = self.known_matcher(rec) if self.known_matcher is not None else None
                self.res.records.append(rec)
                return True
        # no clause script notices the changed answer (it is still well-formed): the two answers themselves are the violation - each of
        # these properties fixes what the function returns for an input, so an answer that changes with the calls made before cannot
        # be right both times.  Replay: the expression in a forked child (state of a fresh import), the history, the expression again.
        script = ('import sys, athlib, datetime, re, math\nfrom decimal import Decimal\n' + FRESH_SRC + self.witness_prelude + (setup or '') + '\n'
                  'a_ = fresh(lambda: %s)\n' % expr + core.history_prelude(hist) + (setup or '') + '\nb_ = here(lambda: %s)\n' % expr +
                  "print(%r, 'fresh:', a_, '; after the earlier call(s):', b_)\nsys.exit(0 if a_ == b_ else 1)\n" % expr)
        code, out = core.fresh_script(script)
        if code == 1:
            self.res.obligations += 1
            self.res.records.append({'label': 'answer-depends-on-earlier-calls', 'func': self.func, 'kind': 'answer-depends-on-earlier-calls',
                                     'args_text': args_text + ' after ' + hist_text,
                                     'expected': 'the answer of a fresh process (%s), whatever was called before' % show(g0),
                                     'observed': out.strip()[-300:], 'script': script, 'model': {k: repr(v) for k, v in inputs.items()},
                                     'job': job_label, 'history': [list(h) for h in hist[-20:]]})
            return True
        self.res.inconclusive.append('%s: %s depends on earlier calls (fresh process: %s; after %s: %s) but the difference did not reproduce in a replay [exit %s]' % (
            job_label, expr, show(g0), hist_text[:200], show(got), code))
        return True

    def _counterexample(self, job_label, label, inputs, detail, quiet=False, history=None):
        tmpl = self.scripts.get(label) or self.scripts.get(label.split(':')[0])
        args_text = ', '.join('%s=%r' % (k, v) for k, v in sorted(inputs.items()))
        if tmpl is None:
            self.res.inconclusive.append('%s: no replay script for %s (%s)' % (job_label, label, args_text))
            return
        script = tmpl.format(**{k: repr(v) for k, v in inputs.items()})
        if history is None and self.prime_body is not None:
            history = self._cur_history
        if history:
            # a violation that needs an earlier call: replayed in a fresh process, history first; it only counts if the same clause
            # script passes without the history (otherwise it is an ordinary violation and the ordinary jobs report it)
            code, out = core.fresh_script(script, history)
            if code == 1 and core.fresh_script(script)[0] == 1:
                code, out = 0, out
            script = core.history_prelude(history) + script
            args_text += ' after an earlier call (see the replay script)'
        else:
            code, out = self.plain.run_script(script)
        if code == 1:
            rec = {'label': label, 'func': self.func, 'kind': label.split(':')[0], 'args_text': args_text,
                   'expected': detail or 'property clause %s' % label, 'observed': out.strip()[-300:],
                   'script': script, 'model': {k: repr(v) for k, v in inputs.items()}, 'job': job_label}
            self.res.records.append(rec)
            km = self.known_matcher(rec) if self.known_matcher is not None else None
            if km is not None:
                self.last_known_id = km['id']
                return 'known'
            return 'violation'
        else:
            if quiet and code in (0, 3):
                # (3: the script could not even evaluate the candidate, e.g. a value outside the assumed domain from an incomplete model)
                return 'spurious'
            self.res.inconclusive.append('%s: counterexample for %s did not reproduce on the plain library (%s) [exit %s] %s' % (
                job_label, label, args_text, code, out.strip()[-200:]))
            return 'inconclusive'


def _close(got, want_v):
    if isinstance(want_v, float) and got.get('type') in ('float', 'int') and got.get('value') is not None:
        g = float(got['value'])
        return g == want_v or abs(g - want_v) <= 1e-9 * max(1.0, abs(g))
    return False
