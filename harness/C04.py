"""C04 - event-code families: unions are exact and measurement kinds never overlap.

Every compiled pattern object is read from the freshly imported athlib.codes
(current working tree), translated from its sre parse tree into a z3 regular
language (vlib/relang.py), and each clause of the property becomes one
emptiness query on a symbolic string of unbounded length:

    exists s.  s in L(composite)  xor  s in union(L(parts))        (union exact)
    exists s.  s in L(A) and s in L(B)                             (disjoint)

`unsat` = holds for every string; `sat` = a concrete string, replayed with the
real `re` before being reported.
"""
import ast
import importlib
import os
import sys
import time

import z3

from vlib import core, relang

LEVEL = 'proof'

# the decomposition the property statement gives (reference, not read from the code)
EVENT_CODE_FAMILIES = ['PAT_TRACK', 'PAT_HURDLES', 'PAT_ROAD', 'PAT_RELAYS', 'PAT_VERTICAL_JUMPS',
                       'PAT_HORIZONTAL_JUMPS', 'PAT_THROWS', 'PAT_MULTI', 'PAT_RACES_FOR_DISTANCE',
                       'PAT_HIGHSCORING_EVENT', 'PAT_LOWSCORING_EVENT']
COMPOSITES = {
    'PAT_EVENT_CODE': EVENT_CODE_FAMILIES,
    'PAT_RUN': ['PAT_TRACK', 'PAT_ROAD', 'PAT_RELAYS'],
    'PAT_FIELD': ['PAT_THROWS', 'PAT_VERTICAL_JUMPS', 'PAT_HORIZONTAL_JUMPS'],
    'PAT_JUMPS': ['PAT_VERTICAL_JUMPS', 'PAT_HORIZONTAL_JUMPS'],
    'PAT_LENGTH_EVENT': ['PAT_HORIZONTAL_JUMPS', 'PAT_THROWS'],
    'PAT_TIMED_EVENT': ['PAT_TRACK', 'PAT_HURDLES', 'PAT_ROAD', 'PAT_RELAYS'],
    'PAT_FINISH_RECORD': ['PAT_PERF', 'PAT_FINISHED', 'PAT_NOT_FINISHED'],
}
# measurement kinds that must be pairwise disjoint
KINDS = ['PAT_TIMED_EVENT', 'PAT_FIELD', 'PAT_MULTI', 'PAT_RACES_FOR_DISTANCE']
# first-match classifier chains: (where, [[earlier...], [later...]]) groups that must not overlap
CHAINS = [
    ('athlon_score.score / unit_name: jumps, then throws, else timed',
     [['PAT_JUMPS'], ['PAT_THROWS'], ['PAT_TIMED_EVENT']]),
    ('AgeGrader.event_code_to_kind: throw, jump, then running (track/road)',
     [['PAT_THROWS'], ['PAT_JUMPS'], ['PAT_TRACK', 'PAT_ROAD']]),
]


def fresh_codes():
    sys.path.insert(0, core.REPO)
    for k in [k for k in sys.modules if k == 'athlib' or k.startswith('athlib.')]:
        del sys.modules[k]
    import importlib.util
    spec = importlib.util.spec_from_file_location('athlib_codes_fresh', os.path.join(core.REPO, 'athlib', 'codes.py'))
    m = importlib.util.module_from_spec(spec)
    spec.loader.exec_module(m)
    return m


def orjoin_parts_from_ast():
    """What the source says each composite is joined from (cross-check only)."""
    with open(os.path.join(core.REPO, 'athlib', 'codes.py')) as f:
        tree = ast.parse(f.read())
    out = {}
    for node in ast.walk(tree):
        if isinstance(node, ast.Assign) and len(node.targets) == 1 and isinstance(node.targets[0], ast.Name):
            for sub in ast.walk(node.value):
                if isinstance(sub, ast.Call) and isinstance(sub.func, ast.Name) and sub.func.id == '_orjoin':
                    out[node.targets[0].id] = [a.id for a in sub.args if isinstance(a, ast.Name)]
    return out


def solve_str(chk, constraint, s, timeout_ms=120000):
    sol = z3.Solver()
    sol.set('timeout', timeout_ms)
    sol.add(constraint)
    t = time.time()
    r = sol.check()
    chk.count_query('z3-%s' % z3.get_version_string(), time.time() - t)
    if str(r) == 'sat':
        return 'sat', sol.model()[s].as_string() if sol.model()[s] is not None else ''
    return str(r), None


def z3str_to_py(txt):
    # z3 prints non-printable / non-ascii characters as \u{hex}
    import re as _re
    return _re.sub(r'\\u\{([0-9a-fA-F]+)\}', lambda m: chr(int(m.group(1), 16)), txt)


def run(chk, only=None):
    codes = fresh_codes()
    chk.functions = ['athlib.codes.%s (compiled pattern object -> sre parse tree -> z3 Re)' % n
                     for n in sorted(set(sum(COMPOSITES.values(), [])) | set(COMPOSITES))]
    chk.stubs = ['p.match(s) is not None <=> s in L(p): valid because the patterns contain no look-around, '
                 'back-reference, possessive or lazy construct (checked on the parse trees each run)',
                 "'$' modelled as optional final newline; '^' only in head position",
                 '\\d and \\s = exact code point sets of the running re module (swept over 0..0x10FFFF); '
                 'characters above z3 max char 0x2FFFF belong to no class used and behave like U+2FFFF']
    chk.bounds = {'string_length': 'unbounded', 'alphabet': 'Unicode code points 0..0x2FFFF (z3 character sort)'}
    chk.outside = ['bytes patterns; re.search / fullmatch semantics (codes are only used through match() or ^-anchored search())']
    s = z3.String('s')
    L = {}
    kinds_seen = set()
    for name in sorted(set(sum(COMPOSITES.values(), [])) | set(COMPOSITES) | set(KINDS)):
        p = getattr(codes, name)
        try:
            L[name] = relang.to_z3(p)
        except relang.Unsupported as e:
            raise core.Inconclusive('pattern %s uses a construct outside the translator: %s' % (name, e))
        kinds_seen |= relang.node_kinds(p)
    if 'MIN_REPEAT' in kinds_seen:
        raise core.Inconclusive('lazy repeat present; language semantics still fine but untested')
    chk.extra['regex_node_kinds'] = sorted(kinds_seen)

    def member(names):
        return z3.Or([z3.InRe(s, L[n]) for n in names]) if len(names) > 1 else z3.InRe(s, L[names[0]])

    def real_match(name, text):
        return getattr(codes, name).match(text) is not None

    def obligation(label, constraint, check_real):
        """constraint satisfiable => violation candidate; check_real(text) -> (bad, expected, observed)"""
        chk.obligations += 1
        r, txt = solve_str(chk, constraint, s)
        if r == 'unsat':
            chk.discharged += 1
            chk.sample({'obligation': label, 'result': 'unsat'})
            return
        if r != 'sat':
            chk.inconclusive_note('%s: solver answered %s' % (label, r))
            return
        text = z3str_to_py(txt)
        bad, expected, observed = check_real(text)
        if not bad:
            chk.inconclusive_note('%s: model %r does not reproduce with the real re (translator error)' % (label, text))
            return
        script = ('import sys\nfrom athlib import codes\ns = %r\n' % text) + observed['script']
        chk.report({'label': label, 'func': 'athlib.codes', 'kind': 'language', 'args_text': repr(text),
                    'expected': expected, 'observed': observed['text'], 'script': script, 'model': text})

    # --- vacuity: every family language non-empty, witness accepted by the real re
    for name in sorted(L):
        r, txt = solve_str(chk, z3.InRe(s, L[name]), s)
        if r != 'sat':
            chk.inconclusive_note('vacuity: %s language empty or unknown (%s)' % (name, r))
            continue
        text = z3str_to_py(txt)
        if not real_match(name, text):
            chk.inconclusive_note('witness %r for %s rejected by real re' % (text, name))
            continue
        chk.reach_sat += 1
        chk.witness_replays += 1

    # --- validation of the translation on the real codes found in the repo's tests and tables
    n_val = validate_translation(chk, codes, L, s)
    chk.extra['translation_validated_on_strings'] = n_val

    # --- exact unions
    for comp, parts in COMPOSITES.items():
        def chk_real(text, comp=comp, parts=parts):
            a = real_match(comp, text)
            b = any(real_match(p, text) for p in parts)
            scr = ('a = codes.%s.match(s) is not None\nb = any(getattr(codes,n).match(s) is not None for n in %r)\n'
                   'print(repr(s), a, b)\nsys.exit(1 if a != b else 0)\n' % (comp, parts))
            return (a != b, 'composite accepts <=> some part accepts',
                    {'text': '%s.match=%s, parts=%s' % (comp, a, b), 'script': scr})
        obligation('union-exact %s == %s' % (comp, '|'.join(parts)),
                   z3.Xor(z3.InRe(s, L[comp]), member(parts)), chk_real)

    # --- measurement kinds pairwise disjoint
    for i in range(len(KINDS)):
        for j in range(i + 1, len(KINDS)):
            a, b = KINDS[i], KINDS[j]
            def chk_real(text, a=a, b=b):
                x, y = real_match(a, text), real_match(b, text)
                scr = ('x = codes.%s.match(s) is not None\ny = codes.%s.match(s) is not None\nprint(repr(s), x, y)\n'
                       'sys.exit(1 if (x and y) else 0)\n' % (a, b))
                return (x and y, 'no string in both', {'text': 'both match' if x and y else 'no', 'script': scr})
            obligation('disjoint %s & %s' % (a, b), z3.And(z3.InRe(s, L[a]), z3.InRe(s, L[b])), chk_real)

    # --- every accepted event code has exactly one measurement kind or is a custom scoring event
    def chk_real_kind(text):
        ec = real_match('PAT_EVENT_CODE', text)
        n = sum(real_match(k, text) for k in KINDS)
        cust = real_match('PAT_HIGHSCORING_EVENT', text) or real_match('PAT_LOWSCORING_EVENT', text)
        scr = ('ec = codes.PAT_EVENT_CODE.match(s) is not None\nn = sum(getattr(codes,k).match(s) is not None for k in %r)\n'
               'cust = bool(codes.PAT_HIGHSCORING_EVENT.match(s) or codes.PAT_LOWSCORING_EVENT.match(s))\n'
               'print(repr(s), ec, n, cust)\nsys.exit(1 if ec and n == 0 and not cust else 0)\n' % (KINDS,))
        return (ec and n == 0 and not cust, 'an accepted code has a measurement kind',
                {'text': 'event code with %d kinds' % n, 'script': scr})
    obligation('every event code has a kind',
               z3.And(z3.InRe(s, L['PAT_EVENT_CODE']), z3.Not(member(KINDS)),
                      z3.Not(member(['PAT_HIGHSCORING_EVENT', 'PAT_LOWSCORING_EVENT']))), chk_real_kind)

    # --- first-match classifier chains
    for where, groups in CHAINS:
        for i in range(len(groups)):
            for j in range(i + 1, len(groups)):
                ga, gb = groups[i], groups[j]
                def chk_real(text, ga=ga, gb=gb):
                    x = any(real_match(n, text) for n in ga)
                    y = any(real_match(n, text) for n in gb)
                    scr = ('x = any(getattr(codes,n).match(s) is not None for n in %r)\n'
                           'y = any(getattr(codes,n).match(s) is not None for n in %r)\nprint(repr(s), x, y)\n'
                           'sys.exit(1 if (x and y) else 0)\n' % (ga, gb))
                    return (x and y, 'order of the chain irrelevant', {'text': 'matches %s and %s' % (ga, gb), 'script': scr})
                obligation('chain-disjoint [%s] %s & %s' % (where, '|'.join(ga), '|'.join(gb)),
                           z3.And(member(ga), member(gb)), chk_real)

    # --- sensitivity controls (must be sat): a composite with one part removed differs from the composite
    controls = 0
    for comp, parts in COMPOSITES.items():
        for drop in parts:
            rest = [p for p in parts if p != drop]
            if not rest:
                continue
            r0, _ = solve_str(chk, z3.And(z3.InRe(s, L[drop]), z3.Not(member(rest))), s)
            if r0 != 'sat':
                continue  # this part is subsumed by the others, dropping it is invisible
            r, txt = solve_str(chk, z3.Xor(z3.InRe(s, L[comp]), member(rest)), s)
            if r != 'sat':
                chk.inconclusive_note('control: dropping %s from %s not detected (%s)' % (drop, comp, r))
            else:
                controls += 1
    chk.extra['sensitivity_controls_sat'] = controls

    # --- the source's own _orjoin calls agree with the reference decomposition (informational cross-check)
    src_parts = orjoin_parts_from_ast()
    chk.extra['orjoin_calls_in_source'] = src_parts

    chk.extra['checker_cmd'] = 'z3 %s (python API, Solver.check on InRe constraints over a String variable)' % z3.get_version_string()
    chk.extra['trusted_base'] = ['z3 %s sequence/regex solver' % z3.get_version_string(), 'vlib/relang.py (sre parse tree -> z3 Re)',
                                 'CPython re._parser (parse tree of the compiled pattern)']
    chk.paths = len(L)


def validate_translation(chk, codes, L, s):
    """Compare L(p) with the real re on every event-code-looking string literal in the repository's
    tests and scoring tables (concrete membership through z3: simplify(InRe(const, L)))."""
    import re as _re
    texts = set()
    for root in ('tests', 'athlib'):
        for dp, dn, fn in os.walk(os.path.join(core.REPO, root)):
            for f in fn:
                if f.endswith('.py') and f != 'bulgarian_score.py':
                    try:
                        src = open(os.path.join(dp, f), encoding='utf8').read()
                    except Exception:
                        continue
                    for m in _re.finditer(r'''["']([A-Za-z0-9][A-Za-z0-9 .:xX]{0,14})["']''', src):
                        texts.add(m.group(1))
    texts |= {'', '\n', '100\n', ' 100', '5W', 'sst', 'SST', '4x100', 'H1', 'T30', '24HR', '\u0663000', '12\u2003H'}
    texts = sorted(texts)
    bad = 0
    names = ('PAT_EVENT_CODE', 'PAT_FINISH_RECORD') if chk.tier == 'quick' else (
        'PAT_EVENT_CODE', 'PAT_TIMED_EVENT', 'PAT_FIELD', 'PAT_FINISH_RECORD', 'PAT_MULTI', 'PAT_RACES_FOR_DISTANCE')
    for name in names:
        p = getattr(codes, name)
        for t in texts:
            want = p.match(t) is not None
            got = z3.simplify(z3.InRe(z3.StringVal(t), L[name]))
            if not (z3.is_true(got) or z3.is_false(got)):
                sol = z3.Solver()
                sol.add(z3.InRe(z3.StringVal(t), L[name]))
                got_b = str(sol.check()) == 'sat'
            else:
                got_b = z3.is_true(got)
            if got_b != want:
                bad += 1
                chk.inconclusive_note('translation mismatch %s on %r: re=%s z3=%s' % (name, t, want, got_b))
    return len(texts) * len(names)
