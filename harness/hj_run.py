"""Job construction and path bodies for the high-jump checks (C02, C03, C08)."""
import itertools
import json
import sys
import time

import z3

from vlib import core, pool
from vlib.pool import JobResult
from harness import hc, hj
from symrun import engine as E
from symrun.values import SymInt, SymBool, mkbool
from symrun.shims.decimal_shim import SymDecimal

plain = hc.plain


class JsonInput(object):
    """an input whose concrete value (for replay scripts) is a JSON text computed from the model"""

    def __init__(self, fn):
        self.fn = fn

    def _sx_conc(self, model):
        return self.fn(model)


_orig_conc = hc.conc


def _conc(model, v):
    if isinstance(v, JsonInput):
        return v._sx_conc(model)
    return _orig_conc(model, v)


hc.conc = _conc


WITNESS = hj.REPLAY.replace("clause = D['clause']", "clause = 'transition'")
WITNESS_C08 = hj.REPLAY.replace("clause = D['clause']", "clause = 'replay'")


def scripts_for(clauses):
    out = {'unexpected-exception': 'import sys\nsys.exit(0)\n'}
    for c in clauses:
        out[c] = hj.REPLAY.replace("clause = D['clause']", 'clause = %r' % c)
    return out


CLAUSES_C02 = ['refusal', 'acceptance', 'log', 'state-order']
CLAUSES_C03 = ['best', 'places', 'finished-tie']
CLAUSES_C08 = ['commute']


def arg_for(method, kind, pre, eng):
    """(argument passed to the real method, JSON-able description for the replay given a model)"""
    if method == 'set_bar_height':
        h = z3.Int(eng.fresh_name('hnew'))
        eng.add(z3.And(h >= 0, h <= 401))
        return SymDecimal(h, 2), (lambda m: m.eval(h, model_completion=True).as_long())
    if method == 'add_jumper':
        bib = 'Z' if kind == 'new' else hj.BIBS[0]
        return bib, (lambda m: bib)
    return kind, (lambda m: kind)


def body_one(n, H, Ls, method, kind, clauses, phase='regular', perm_k=None):
    WITNESS = WITNESS_C08 if clauses == ['log'] else globals()['WITNESS']

    def body(R):
        hjmod = sys.modules['athlib.highjump']
        eng = E.cur()
        perms = list(itertools.permutations(range(n)))
        if perm_k is not None:
            perm = perms[perm_k]            # the job is one slice (one order of ranked_jumpers) of a larger job, for parallelism
        else:
            perm = perms[eng.choose(len(perms), 'perm')] if len(perms) > 1 else tuple(range(n))
        if phase == 'regular':
            pre = hj.build_regular(hjmod, n, H, Ls, perm)
            jo = None
        else:
            pre = hj.build_jumpoff(hjmod, n, H, Ls, phase.startswith('jo1'), perm, prior=(phase[3:] or None))
            jo = {'started': pre.started, 'participants': [hj.BIBS[j] for j in range(n) if pre.is_part[j]], 'Hreg': H}
        s0 = hj.snapshot(pre.comp)
        arg, argc = arg_for(method, kind, pre, eng)
        data = JsonInput(lambda m: json.dumps({'pre': hj.conc_snapshot(m, s0), 'calls': [[method, argc(m)]], 'jo': jo}))
        ins = {'data': data}
        R.partial = {'inputs': ins}
        r, exc = hj.apply_call(pre.comp, hjmod, method, arg)
        s1 = hj.snapshot(pre.comp)
        if 'refusal' in clauses:
            if r == 'error':
                raise hc.PathFail('refusal', 'raised %s: %s' % (type(exc).__name__, str(exc)[:80]))
            if r == 'refused':
                same_log = len(pre.comp.actions) == 0
                eng.check(z3.And(hj.snap_equal(s0, s1), z3.BoolVal(same_log)), 'refusal')
        if r == 'error':
            return {'inputs': ins, 'observe': [], 'witness_script': WITNESS}
        if 'acceptance' in clauses:
            L = hj.legal_term(pre, method, arg)
            eng.check(L if r == 'ok' else z3.Not(L), 'acceptance')
        if r != 'ok':
            return {'inputs': ins, 'observe': [], 'witness_script': WITNESS}
        if 'log' in clauses:
            acts = pre.comp.actions
            ok = len(acts) == 1 and acts[0][0] == method and (acts[0][1] is arg or (method == 'add_jumper' and acts[0][1] == dict(bib=arg)) or
                                                              (method not in ('add_jumper', 'set_bar_height') and acts[0][1] == arg))
            if not ok:
                raise hc.PathFail('log', 'log holds %r' % (acts,))
        if 'state-order' in clauses:
            if hj.ORDER[s1['state']] < hj.ORDER[s0['state']]:
                raise hc.PathFail('state-order', '%s -> %s' % (s0['state'], s1['state']))
        # ---- post-state against the card formulas (inductive step of the invariant, and the C03 clauses)
        if method == 'add_jumper':
            return {'inputs': ins, 'observe': [], 'witness_script': WITNESS}
        H1 = pre.H + (1 if method == 'set_bar_height' else 0)
        hs1 = s1['heights']
        cards1 = hj.expected_cards(pre, method, arg)
        cm1 = hj.CardModel(cards1, hs1, H1) if phase == 'regular' else None
        # the cards are the expected extension
        parts = []
        for j in range(n):
            real = s1['jumpers'][j]['cols']
            if len(real) != len(cards1[j]):
                raise hc.PathFail('acceptance', 'card of %s has %d columns, expected %d' % (hj.BIBS[j], len(real), len(cards1[j])))
            parts += [hj.att_eq(x, y) for x, y in zip(real, cards1[j])]
        eng.check(z3.And(parts) if parts else z3.BoolVal(True), 'acceptance', 'card not extended by exactly this trial')
        if 'best' in clauses:
            for j in range(n):
                b, idx = hj.best_greatest(cards1[j], hs1)
                eng.check(s1['jumpers'][j]['best'] == b, 'best')
                eng.check((s1['jumpers'][j]['hci'] >= 0) == (idx >= 0), 'best')
        if phase != 'regular':
            if 'jumpoff-result' in clauses and s1['state'] == 'finished':
                # the survivor of the jump-off is first, alone; the other participants stay ahead of everyone who was not tied for first
                top = [z3.And([z3.Not(pre.cm.key_lt(k, j)) for k in range(n) if k != j]) for j in range(n)]
                firsts = z3.Sum([z3.If(s1['jumpers'][j]['place'] == 1, 1, 0) for j in range(n)])
                eng.check(firsts == 1, 'jumpoff-result')
                for j in range(n):
                    sj = s1['jumpers'][j]
                    if pre.is_part[j]:
                        eng.check(z3.Implies(z3.Not(sj['eliminated']), sj['place'] == 1), 'jumpoff-result')
                        for k in range(n):
                            eng.check(z3.Implies(z3.Not(top[k]), sj['place'] < s1['jumpers'][k]['place']), 'jumpoff-result')
            return {'inputs': ins, 'observe': [], 'witness_script': WITNESS}
        remaining = cm1.n_remaining() >= 1
        terminal = s1['state'] in ('won', 'finished', 'drawn', 'jumpoff')
        if 'places' in clauses and terminal and method != 'set_bar_height':
            # countback on the cards alone: (cleared anything, greatest height, failures at it, failures up to it)
            def ck(j):
                return (z3.If(cm1.hci[j] >= 0, 0, 1), -cm1.best[j], cm1.fails_at[j], cm1.fails_upto[j])

            def lt(a, b):
                t = z3.BoolVal(False)
                for x, y in reversed(list(zip(ck(a), ck(b)))):
                    t = z3.Or(x < y, z3.And(x == y, t))
                return t
            for j in range(n):
                want = 1 + z3.Sum([z3.If(lt(k, j), 1, 0) for k in range(n) if k != j]) if n > 1 else z3.IntVal(1)
                eng.check(z3.Implies(cm1.hci[j] >= 0, s1['jumpers'][j]['place'] == want), 'places')
        if 'finished-tie' in clauses and s1['state'] == 'finished':
            firsts = z3.Sum([z3.If(z3.And(s1['jumpers'][j]['place'] == 1, s1['jumpers'][j]['hci'] >= 0), 1, 0) for j in range(n)])
            eng.check(firsts <= 1, 'finished-tie')
        if 'inv' in clauses:
            # inductive step: while somebody remains, every flag of the real object equals the formula on the new card
            flags = []
            for j in range(n):
                sj = s1['jumpers'][j]
                flags += [sj['eliminated'] == cm1.elim[j], sj['dismissed'] == cm1.dismissed[j], sj['cf'] == cm1.cf[j], sj['round_lim'] == 3]
            want_state = z3.BoolVal(s1['state'] == 'won') == cm1.won()
            eng.check(z3.Implies(remaining, z3.And(flags + [want_state])), 'inv')
        return {'inputs': ins, 'observe': [], 'witness_script': WITNESS}
    return body


def body_commute(n, H, Ls, m1, a1, m2, a2):
    def body(R):
        hjmod = sys.modules['athlib.highjump']
        eng = E.cur()
        perms = list(itertools.permutations(range(n)))
        perm = perms[eng.choose(len(perms), 'perm')] if len(perms) > 1 else tuple(range(n))
        pre = hj.build_regular(hjmod, n, H, Ls, perm)
        s0 = hj.snapshot(pre.comp)
        # a second real object in the same symbolic state (same terms)
        pre2 = hj.Pre()
        comp2 = hjmod.HighJumpCompetition()
        comp2.state = pre.comp.state
        comp2.heights = list(pre.comp.heights)
        comp2.bar_height = pre.comp.bar_height
        comp2.actions = []
        js2 = []
        for jm in pre.comp.jumpers:
            k = hjmod.Jumper(bib=jm.bib, order=jm.order)
            for f in ('consecutive_failures', 'eliminated', 'dismissed', 'round_lim', 'highest_cleared_index', 'highest_cleared', '_place'):
                setattr(k, f, getattr(jm, f))
            k.attempts_by_height = list(jm.attempts_by_height)
            js2.append(k)
            comp2.jumpers.append(k)
            comp2.jumpers_by_bib[k.bib] = k
        byb = {k.bib: k for k in js2}
        comp2.ranked_jumpers = [byb[x.bib] for x in pre.comp.ranked_jumpers]
        data = JsonInput(lambda m: json.dumps({'pre': hj.conc_snapshot(m, s0), 'calls': [[m1, a1], [m2, a2]]}))
        ins = {'data': data}
        R.partial = {'inputs': ins}
        r1a, _ = hj.apply_call(pre.comp, hjmod, m1, a1)
        r1b, _ = hj.apply_call(pre.comp, hjmod, m2, a2)
        r2b, _ = hj.apply_call(comp2, hjmod, m2, a2)
        r2a, _ = hj.apply_call(comp2, hjmod, m1, a1)
        if 'error' in (r1a, r1b, r2a, r2b):
            return {'inputs': ins, 'observe': []}           # exception types are C02's subject
        if (r1a, r1b) != (r2a, r2b):
            raise hc.PathFail('commute', 'acceptance depends on the order: %s,%s vs %s,%s' % (r1a, r1b, r2a, r2b))
        if (r1a, r1b) == ('ok', 'ok'):
            sA, sB = hj.snapshot(pre.comp), hj.snapshot(comp2)
            if sA['state'] != sB['state']:
                raise hc.PathFail('commute', 'state %s vs %s' % (sA['state'], sB['state']))
            parts = [hj.snap_equal(sA, sB, fields=('state', 'heights', 'bar', 'cols', 'best', 'eliminated'))]
            for ja, jb in zip(sA['jumpers'], sB['jumpers']):
                parts.append((ja['hci'] >= 0) == (jb['hci'] >= 0))
                parts.append(z3.Implies(ja['hci'] >= 0, ja['place'] == jb['place']))
            eng.check(z3.And(parts), 'commute')
        return {'inputs': ins, 'observe': []}
    return body


def body_tieorder(n, H, Ls, method, arg):
    """the order of equally ranked athletes inside ranked_jumpers (history: the previous position) must stay unobservable:
    the same call from the same state with two different tie orders gives the same observables"""
    def body(R):
        hjmod = sys.modules['athlib.highjump']
        eng = E.cur()
        perms = list(itertools.permutations(range(n)))
        p1 = perms[eng.choose(len(perms), 'perm1')]
        p2 = perms[eng.choose(len(perms), 'perm2')]
        if p1 >= p2:
            raise E.PathAbort()
        pre = hj.build_regular(hjmod, n, H, Ls, p1)
        if pre.no_trials:
            raise E.PathAbort()
        for a, b in zip(p2, p2[1:]):
            eng.add(z3.Not(pre.cm.key_lt(b, a)))          # the second order is also sorted by ranking key
        s0 = hj.snapshot(pre.comp)
        comp2 = hjmod.HighJumpCompetition()
        comp2.state, comp2.heights, comp2.bar_height, comp2.actions = pre.comp.state, list(pre.comp.heights), pre.comp.bar_height, []
        js2 = []
        for jm in pre.comp.jumpers:
            k = hjmod.Jumper(bib=jm.bib, order=jm.order)
            for f in ('consecutive_failures', 'eliminated', 'dismissed', 'round_lim', 'highest_cleared_index', 'highest_cleared', '_place'):
                setattr(k, f, getattr(jm, f))
            k.attempts_by_height = list(jm.attempts_by_height)
            js2.append(k)
            comp2.jumpers.append(k)
            comp2.jumpers_by_bib[k.bib] = k
        comp2.ranked_jumpers = [js2[i] for i in p2]
        data = JsonInput(lambda m: json.dumps({'pre': hj.conc_snapshot(m, s0), 'calls': [[method, arg]], 'tie_orders': [[hj.BIBS[i] for i in p1], [hj.BIBS[i] for i in p2]]}))
        ins = {'data': data}
        R.partial = {'inputs': ins}
        r1, _ = hj.apply_call(pre.comp, hjmod, method, arg)
        r2, _ = hj.apply_call(comp2, hjmod, method, arg)
        if r1 != r2:
            raise hc.PathFail('tie-order', 'acceptance %s vs %s' % (r1, r2))
        if r1 == 'ok':
            sA, sB = hj.snapshot(pre.comp), hj.snapshot(comp2)
            if sA['state'] != sB['state']:
                raise hc.PathFail('tie-order', 'state %s vs %s' % (sA['state'], sB['state']))
            parts = [hj.snap_equal(sA, sB, fields=('state', 'heights', 'bar', 'cols', 'best', 'eliminated'))]
            for ja, jb in zip(sA['jumpers'], sB['jumpers']):
                parts.append(z3.Implies(ja['hci'] >= 0, ja['place'] == jb['place']))
            eng.check(z3.And(parts), 'tie-order')
        return {'inputs': ins, 'observe': []}
    return body


def worker(job):
    kind = job[0]
    res = JobResult()
    t0 = time.time()
    if kind == 'one':
        _, n, H, Ls, method, akind, clauses, budget = job[:8]
        phase = job[8] if len(job) > 8 else 'regular'
        perm_k = job[9] if len(job) > 9 else None
        label = '%s(%s) from %s n=%d H=%d columns=%s' % (method, akind, phase, n, H, list(Ls)) + ('' if perm_k is None else ' order#%d' % perm_k)
        R = hc.Runner(res, plain(), 'athlib.highjump.HighJumpCompetition.%s' % method, scripts_for(clauses + ['inv', 'jumpoff-result']), max_paths=200000, deadline=time.time() + budget)
        try:
            R.explore(body_one(n, H, Ls, method, akind, clauses, phase, perm_k), label)
        except E.Budget as e:
            res.inconclusive.append('%s: %s' % (label, e))
    elif kind == 'tieorder':
        _, n, H, Ls, method, arg, budget = job
        label = 'tie order: %s(%s) from n=%d H=%d columns=%s' % (method, arg, n, H, list(Ls))
        R = hc.Runner(res, plain(), 'athlib.highjump.HighJumpCompetition._rank', scripts_for(['tie-order']), max_paths=200000, deadline=time.time() + budget)
        try:
            R.explore(body_tieorder(n, H, Ls, method, arg), label)
        except E.Budget as e:
            res.inconclusive.append('%s: %s' % (label, e))
    else:
        _, n, H, Ls, m1, a1, m2, a2, budget = job
        label = '%s(%s) || %s(%s) from n=%d H=%d columns=%s' % (m1, a1, m2, a2, n, H, list(Ls))
        R = hc.Runner(res, plain(), 'athlib.highjump.HighJumpCompetition', scripts_for(['commute']), max_paths=200000, deadline=time.time() + budget)
        try:
            R.explore(body_commute(n, H, Ls, m1, a1, m2, a2), label)
        except E.Budget as e:
            res.inconclusive.append('%s: %s' % (label, e))
    res.extra['shapes'] = 1
    if time.time() - t0 > 120:
        res.extra['slow_jobs'] = [[label, round(time.time() - t0, 1)]]
    return res


def shapes(nmax, Hmax):
    out = []
    for n in range(1, nmax + 1):
        for H in range(0, Hmax + 1):
            for Ls in itertools.product(range(0, H + 1), repeat=n):
                out.append((n, H, Ls))
    return out


def jobs_one(clauses, nmax, Hmax, budget):
    jobs = []
    for (n, H, Ls) in shapes(nmax, Hmax):
        calls = [('set_bar_height', 'any'), ('add_jumper', 'new'), ('add_jumper', 'dup')]
        for b in hj.BIBS[:n]:
            for m in hj.TRIALS:
                calls.append((m, b))
        for (m, a) in calls:
            jobs.append(('one', n, H, Ls, m, a, clauses, budget))
    # no athletes at all
    for H in (0, 1):
        for (m, a) in [('set_bar_height', 'any'), ('add_jumper', 'new')]:
            jobs.append(('one', 0, H, (), m, a, clauses, budget))
    return jobs


def jobs_jumpoff(clauses, nmax, Hmax, budget, second=True):
    jobs = []
    for (n, H, Ls) in shapes(nmax, Hmax):
        if n < 2 or H < 1 or min(Ls) < 1 or max(Ls) != H:
            continue          # everybody has gone out (at least one column each), the last of them at the last regular height
        # jo0 / jo1: first jump-off height (bar not yet set / set); suffix x / o: second jump-off height after a first one that all failed / cleared
        for phase in ('jo0', 'jo1') + (('jo0x', 'jo1x', 'jo0o', 'jo1o') if second else ()):
            calls = [('set_bar_height', 'any')] + [(m, b) for b in hj.BIBS[:n] for m in hj.TRIALS]
            for (m, a) in calls:
                jobs.append(('one', n, H, Ls, m, a, clauses, budget, phase))
    return jobs


def jobs_jumpoff_three(clauses, budget):
    """three athletes on two regular heights, second jump-off height in progress: the smallest shape in which a participant can fall behind an
    athlete who was not tied for first (quick tier; the thorough tier has every three-athlete shape)"""
    jobs = []
    n, H, Ls = 3, 2, (2, 2, 2)
    for phase in ('jo1o', 'jo1x'):
        for (m, a) in [(m, b) for b in hj.BIBS[:n] for m in ('cleared', 'failed')]:
            jobs.append(('one', n, H, Ls, m, a, clauses, budget, phase))
    # ... and on three regular heights after a first jump-off height that the tied leaders all cleared: the smallest shape in which a
    # third athlete has the leaders' best height with no failure at it but more failures before it (countback's third criterion)
    # (the three cards have the same shape and every ranking order is a symbolic choice, so the calls of one bib cover the others)
    for m in ('cleared', 'failed'):
        for k in range(6):
            jobs.append(('one', 3, 3, (3, 3, 3), m, hj.BIBS[0], clauses, budget, 'jo1o', k))
    return jobs


def jobs_commute(nmax, Hmax, budget):
    jobs = []
    for (n, H, Ls) in shapes(nmax, Hmax):
        if n < 2 or H < 1:
            continue
        for a, b in itertools.combinations(hj.BIBS[:n], 2):
            for m1 in hj.TRIALS:
                for m2 in hj.TRIALS:
                    jobs.append(('commute', n, H, Ls, m1, a, m2, b, budget))
    return jobs


def jobs_commute_three(budget):
    """three athletes, everybody on the last height (the situations in which ties for first and jump-offs arise)"""
    jobs = []
    for H in (1,):
        Ls = (H, H, H)
        for a, b in itertools.combinations(hj.BIBS[:3], 2):
            for m1 in ('failed', 'cleared', 'retired'):
                for m2 in ('failed', 'cleared', 'retired'):
                    jobs.append(('commute', 3, H, Ls, m1, a, m2, b, budget))
    return jobs


def jobs_tieorder(nmax, Hmax, budget, three=True):
    jobs = []
    sh = [x for x in shapes(nmax, Hmax) if x[0] >= 2 and x[1] >= 1]
    if three and nmax < 3:
        sh += [(3, 1, (1, 1, 1)), (3, 2, (2, 2, 2))]
    for (n, H, Ls) in sh:
        for b in hj.BIBS[:n]:
            for m in ('failed', 'cleared', 'retired'):
                jobs.append(('tieorder', n, H, Ls, m, b, budget))
    return jobs


def common_evidence(chk, nmax, Hmax):
    pol = hj.probe_hci_policy(hc.plain())
    chk.extra['best_column_policy_of_the_code_under_test'] = pol
    chk.functions = ['athlib.highjump.HighJumpCompetition.add_jumper / set_bar_height / check_started / cleared / failed / passed / retired / _rankj / _rank',
                     'athlib.highjump.Jumper._set_jump_array / cleared / failed / passed / retired / ranking_key / has_retired / place']
    chk.stubs = ['pre-state = a real HighJumpCompetition + Jumper objects whose fields are proxies: heights symbolic (strictly rising, <= 4.00 m), every card column a symbolic attempt '
                 'string (symbolic length 0-3, letters x o - r), flags tied to the cards by the regular-phase representation invariant (harness/hj.py CardModel)',
                 'the invariant is validated, not trusted: every counterexample is rebuilt through the public API (round-robin replay of the card) and compared field by field before it is reported; '
                 'a pre-state that cannot be reached as modelled ends the run as inconclusive (exit 2), never as a violation',
                 'Decimal heights as exact scaled integers; list.sort on proxy keys forks on the comparisons',
                 'highest_cleared_index (internal) among several columns of the best height: the pre-states follow the code under test (probed concretely: %s column); '
                 'the clauses never mention it - best height and places are computed from the cards alone' % pol]
    chk.bounds = {'athletes': '0..%d' % nmax, 'heights_on_the_card': '0..%d' % Hmax, 'columns_per_athlete': 'every combination 0..H',
                  'phase': 'pre-states of the regular phase (scheduled / started / won); the transitions into jump-off, finished and drawn are covered as post-states',
                  'histories': 'not unrolled: any history whose states stay inside these bounds reaches a pre-state of the family (inductive step checked as clause "inv")'}
    chk.outside = ['pre-states inside a jump-off (round_lim 1 after re-instatement) and the calls made there', 'more athletes / heights than the bounds',
                   'unknown bibs (KeyError) and DQ/DNS order values', 'from_matrix parsing (header detection, order handling)']
