"""C14 - WMA age grading is defined, consistent and spelling-independent on its domain.

The real AgeGrader.calculate_factor / world_best / calculate_age_grade and the top
level wrappers run with a symbolic age (a real number from the first non-null
column to 20 years past the last), a symbolic performance, and symbolic
spellings of gender (first letter m/M/f/F + free suffix cells) and event code
(per-letter case cells).  Floats: reals with monotone rounding; a quotient by
a symbolic value is an uninterpreted function with its order facts.
Obligations: no exception on any path; factor > 0; grade == R(R(best/factor)/time)
resp. R(mark/R(best/factor)) (term equality); a better performance never grades
lower (two adjacent grid marks); every spelling gives the same three terms.
"""
import json
import os
import sys
import time

import z3

from vlib import core, pool
from vlib.pool import JobResult
from harness import hc
from symrun import engine as E, floatmodel
from symrun.values import SymInt, SymFloat, symint, realval
from symrun.strings import SymStr, symcell, _mk

plain = hc.plain

_PRE = ('import sys, math, athlib\nyear = YEAR\nage = {age}\nperf = {perf}\ng = G\nev = EV\n'
        'ag = athlib.ag2015 if year == 2015 else athlib.ag2023\n')
SCRIPTS_T = {
    'raises': _PRE + ("try:\n    f = ag.calculate_factor(g, age, ev); b = ag.world_best(g, ev); gr = ag.calculate_age_grade(g, age, ev, perf); bad = False\n"
                      "except Exception as e:\n    f = repr(e); bad = True\nprint(year, g, ev, 'age', age, 'perf', perf, '->', f)\nsys.exit(1 if bad else 0)\n"),
    'factor': _PRE + ("f = ag.calculate_factor(g, age, ev)\nprint(year, g, ev, 'age', age, 'factor', f)\nsys.exit(0 if isinstance(f, (int, float)) and math.isfinite(f) and f > 0 else 1)\n"),
    'grade': _PRE + ("f = ag.calculate_factor(g, age, ev); b = ag.world_best(g, ev); gr = ag.calculate_age_grade(g, age, ev, perf)\n"
                     "kind = ag.event_code_to_kind(ev)\nwant = (b * 1.0 / f) / perf if kind in ('road', 'track') else perf / (b * 1.0 / f)\n"
                     "print(year, g, ev, 'age', age, 'perf', perf, 'grade', gr, 'definition gives', want)\nsys.exit(0 if gr == want else 1)\n"),
    'order': _PRE + ("k = {k}\nkind = ag.event_code_to_kind(ev)\ng1 = ag.calculate_age_grade(g, age, ev, k / 100); g2 = ag.calculate_age_grade(g, age, ev, (k + 1) / 100)\n"
                     "print(year, g, ev, 'age', age, 'marks', k / 100, (k + 1) / 100, 'grades', g1, g2)\n"
                     "sys.exit(0 if (g1 > g2 if kind in ('road', 'track') else g2 > g1) else 1)\n"),
    'spelling': ('import sys, athlib\nyear = YEAR\nage = {age}\nperf = {perf}\ng = {g}\nev = {ev}\nG0 = G\nEV0 = EV\n'
                 'ag = athlib.ag2015 if year == 2015 else athlib.ag2023\n'
                 "def three(gg, ee):\n    try:\n        return (ag.calculate_factor(gg, age, ee), ag.world_best(gg, ee), ag.calculate_age_grade(gg, age, ee, perf))\n    except Exception as e:\n        return repr(e)\n"
                 "a, b = three(G0, EV0), three(g, ev)\nprint(year, repr(g), repr(ev), 'age', age, '->', b, 'canonical spelling gives', a)\nsys.exit(0 if a == b else 1)\n"),
    'unexpected-exception': 'import sys\nsys.exit(0)\n',
}


SCRIPTS_T['history'] = ('import sys, athlib\nyear = YEAR\nage = {age}\nperf = {perf}\ng = G\nev = EV\n' + hc.FRESH_SRC +
                        'ag = athlib.ag2015 if year == 2015 else athlib.ag2023\n'
                        "og = 'f' if g == 'm' else 'm'\n"
                        "three = lambda: (ag.calculate_factor(g, age, ev), ag.world_best(g, ev), ag.calculate_age_grade(g, age, ev, perf))\n"
                        "a = fresh(three)\nhere(lambda: (ag.world_best(og, ev), ag.calculate_factor(og, 50, ev), ag.calculate_age_grade(og, 50, ev, perf)))\nb = here(three)\n"
                        "print(year, g, ev, 'age', age, 'perf', perf, '-> fresh', a, '; after the same questions for the other gender', b)\nsys.exit(0 if a == b else 1)\n")


def scripts(year, g, ev):
    return {k: v.replace('YEAR', repr(year)).replace('EV', repr(ev)).replace('G', repr(g), 1) if k != 'spelling' else
            v.replace('YEAR', repr(year)).replace('EV0 = EV', 'EV0 = %r' % ev).replace('G0 = G', 'G0 = %r' % g) for k, v in SCRIPTS_T.items()}


def grader(year):
    athlib = hc._athlib
    return athlib.ag2015 if year == 2015 else athlib.ag2023


def first_col(row, ages):
    for i, v in enumerate(row[3:]):
        if v is not None:
            return ages[i]
    return None


def body_main(year, g, ev, lo, hi, best):
    def body(R):
        eng = E.cur()
        ag = grader(year)
        a = z3.Real(eng.fresh_name('age'))
        eng.add(z3.And(a >= lo, a <= hi))
        age = SymFloat(a)
        p = z3.Real(eng.fresh_name('perf'))
        eng.add(z3.And(p >= realval(best) / 4, p <= realval(best) * 8, p > 0))
        perf = SymFloat(p)
        ins = {'age': age, 'perf': perf}
        R.partial = {'inputs': ins}
        try:
            f = ag.calculate_factor(g, age, ev)
            b = ag.world_best(g, ev)
            gr = ag.calculate_age_grade(g, age, ev, perf)
        except Exception as e:
            raise hc.PathFail('raises', '%s: %s' % (type(e).__name__, str(e)[:80]))
        ft = f.term if isinstance(f, SymFloat) else realval(f)
        eng.check(ft > 0, 'factor')
        kind = ag.event_code_to_kind(ev)
        fobj = f if isinstance(f, SymFloat) else f
        std = (b * 1.0) / fobj
        want = std / perf if kind in ('road', 'track') else perf / std
        gt = gr.term if isinstance(gr, SymFloat) else realval(gr)
        wt = want.term if isinstance(want, SymFloat) else realval(want)
        eng.check(gt == wt, 'grade')
        return {'inputs': ins, 'observe': []}
    return body


def body_history(year, g, ev, lo, hi, best):
    """factor, best and grade for one gender after the same grader object answered the same questions for the other gender equal the
    answers obtained once the library state has been put back (per-object caches, scratch attributes such as _fx / _pfac)"""
    def body(R):
        eng = E.cur()
        ag = grader(year)
        a = z3.Real(eng.fresh_name('age'))
        eng.add(z3.And(a >= lo, a <= hi))
        age = SymFloat(a)
        p = z3.Real(eng.fresh_name('perf'))
        eng.add(z3.And(p >= realval(best) / 4, p <= realval(best) * 8, p > 0))
        perf = SymFloat(p)
        ins = {'age': age, 'perf': perf}
        R.partial = {'inputs': ins}
        og = 'f' if g == 'm' else 'm'
        for call in (lambda: ag.world_best(og, ev), lambda: ag.calculate_factor(og, 50, ev), lambda: ag.calculate_age_grade(og, 50, ev, perf)):
            try:
                call()
            except Exception:
                pass

        def three():
            try:
                return (ag.calculate_factor(g, age, ev), ag.world_best(g, ev), ag.calculate_age_grade(g, age, ev, perf))
            except Exception as e:
                return ('raises', type(e).__name__)
        r1 = three()
        hc.reset_library_state()
        r0 = three()
        if (r1[0] == 'raises') != (r0[0] == 'raises') or (r1[0] == 'raises' and r1 != r0):
            raise hc.PathFail('history', 'fresh %r, after the other gender %r' % (r0[:2], r1[:2]))
        if r1[0] != 'raises':
            parts = []
            for x, y in zip(r0, r1):
                xt = x.term if isinstance(x, SymFloat) else realval(x)
                yt = y.term if isinstance(y, SymFloat) else realval(y)
                parts.append(xt == yt)
            eng.check(z3.And(parts), 'history')
        return {'inputs': ins, 'observe': []}
    return body


def body_order(year, g, ev, age, best):
    def body(R):
        eng = E.cur()
        ag = grader(year)
        kmax = int(best * 100 * 6)
        k = symint('k', max(1, int(best * 100 / 3)), kmax)
        ins = {'age': age, 'k': k, 'perf': 0}
        R.partial = {'inputs': ins}
        m1 = SymFloat(floatmodel.rnd(z3.ToReal(k.term) / 100))
        m2 = SymFloat(floatmodel.rnd(z3.ToReal(k.term + 1) / 100))
        try:
            eng.r_copy = 1
            g1 = ag.calculate_age_grade(g, age, ev, m1)
            eng.r_copy = 2
            g2 = ag.calculate_age_grade(g, age, ev, m2)
            eng.r_copy = 0
        except Exception as e:
            raise hc.PathFail('raises', '%s: %s' % (type(e).__name__, str(e)[:80]))
        kind = ag.event_code_to_kind(ev)
        eng.check(g1.term >= g2.term if kind in ('road', 'track') else g2.term >= g1.term, 'order')
        return {'inputs': ins, 'observe': []}
    return body


def body_spelling(year, g, ev, age, best):
    def body(R):
        eng = E.cur()
        ag = grader(year)
        # gender: first letter in either case, then 0-2 free cells ; event: every letter in either case
        n = eng.choose(3, 'gsuffix')
        gs = _mk([symcell(g.lower() + g.upper(), 'g0')] + [symcell('aleALE ', 'g%d' % (i + 1)) for i in range(n)])
        es = _mk([symcell(c.lower() + c.upper(), 'e%d' % i) if c.isalpha() else c for i, c in enumerate(ev)])
        perf = best * 1.25
        ins = {'age': age, 'perf': perf, 'g': gs, 'ev': es}
        R.partial = {'inputs': ins}
        if hc._athlib.check_event_code(es) is None:
            return {'inputs': ins, 'observe': []}        # not an event code in this case spelling (e.g. 5m for 5M): outside the clause
        f0, b0, gr0 = ag.calculate_factor(g, age, ev), ag.world_best(g, ev), ag.calculate_age_grade(g, age, ev, perf)
        try:
            f1, b1, gr1 = ag.calculate_factor(gs, age, es), ag.world_best(gs, es), ag.calculate_age_grade(gs, age, es, perf)
        except Exception as e:
            raise hc.PathFail('spelling', 'raised %s: %s' % (type(e).__name__, str(e)[:80]))
        if (f0, b0, gr0) != (f1, b1, gr1):
            raise hc.PathFail('spelling', '%r vs %r' % ((f0, b0, gr0), (f1, b1, gr1)))
        return {'inputs': ins, 'observe': []}
    return body


def worker(job):
    kind, year, g, ev = job[:4]
    res = JobResult()
    R = hc.Runner(res, plain(), 'athlib.wma.agegrader.AgeGrader', scripts(year, g, ev), max_paths=20000, deadline=time.time() + 900,
                  r_axioms=('mono', 'paired', 'err'))
    label = '%s %s %s %s' % (kind, year, g, ev)
    try:
        if kind == 'main':
            R.explore(body_main(year, g, ev, job[4], job[5], job[6]), label)
        elif kind == 'order':
            R.explore(body_order(year, g, ev, job[4], job[5]), label + ' age %s' % job[4])
        elif kind == 'history':
            R.explore(body_history(year, g, ev, job[4], job[5], job[6]), label)
        else:
            R.explore(body_spelling(year, g, ev, job[4], job[5]), label + ' age %s' % job[4])
    except E.Budget as e:
        res.inconclusive.append('%s: %s' % (label, e))
    res.extra['jobs_' + kind] = 1
    return res


def concrete_facts(chk):
    """finite facts, exhaustive: the open best at an age whose factor is exactly 1 grades exactly 1.0; ages past the last column use the
    last column; the athlon factor table through wma_athlon_age_factor for every band"""
    script = r'''
import sys, json, os, athlib
bad = []
n = 0
for year, ag in ((2015, athlib.ag2015), (2023, athlib.ag2023)):
    data = ag.get_data(); ages = data['ages']
    for g in 'mf':
        for row in data[g]:
            ev = row[0]
            cols = row[3:]
            for a, f in zip(ages, cols):
                if f == 1 or f == 1.0:
                    n += 1
                    for G in (g, g.upper(), {'m': 'Male', 'f': 'female'}[g]):
                        gr = athlib.wma_age_grade(G, a, ev, row[2], year=year)
                        if gr != 1.0: bad.append((year, G, ev, a, gr))
            last = [f for f in cols if f is not None][-1]
            for a in (ages[-1] + 0.5, ages[-1] + 7, ages[-1] + 20):
                n += 1
                f = athlib.wma_age_factor(g, a, ev, year=year)
                if f != last: bad.append((year, g, ev, a, f, 'last column', last))
d = json.load(open(os.path.join(os.path.dirname(athlib.__file__), 'wma', 'wma-athlons-data.json')))
for g in 'mf':
    for row in d[g]:
        for i, a in enumerate(d['ages']):
            for G in (g, g.upper()):
                n += 1
                f = athlib.wma_athlon_age_factor(G, a + 2, row[0].lower())
                want = 1.0 if a < d['ages'][1] else row[i]
                if f != want: bad.append(('athlon', G, row[0], a + 2, f, want))
print(n, 'facts checked;', bad[:6])
sys.exit(1 if bad else 0)
'''
    code, out = plain().run_script(script)
    chk.obligations += 1
    chk.extra['concrete_facts'] = out.strip()[-300:]
    if code == 0:
        chk.discharged += 1
        chk.trivial += 1
    elif code == 1:
        chk.report({'label': 'factor-one-and-clamping', 'func': 'athlib.wma_age_grade', 'kind': 'factor-one-and-clamping', 'args_text': out.strip()[-300:],
                    'expected': 'grade 1.0 at factor-1 ages; last column past the table; athlon factors per band', 'observed': out.strip()[-300:], 'script': script})
    else:
        chk.inconclusive_note('concrete facts script failed: %s' % out[-300:])


def table_facts(chk):
    """finite facts about the data, exhaustive: every row of both single-event tables has one cell per age column, cells are missing (null) only
    before the event's first tabulated age, and every other cell is a finite positive number (the property's wording; 2023 field factors exceed 1) - so the symbolic runs, which take the cells
    as given, are not vacuous on a malformed row.  One record per bad cell (matched against the known findings one by one)"""
    script = r'''
import sys, athlib
bad = []
for year, ag in ((2015, athlib.ag2015), (2023, athlib.ag2023)):
    data = ag.get_data(); ages = data['ages']
    for g in 'mf':
        for row in data[g]:
            cols = row[3:]
            if len(cols) != len(ages):
                bad.append('%s %s %s row has %d factor cells for %d ages' % (year, g, row[0], len(cols), len(ages)))
            seen = False
            for a, f in zip(ages, cols):
                if f is None:
                    if seen: bad.append('%s %s %s age %s: missing factor after the first tabulated age' % (year, g, row[0], a))
                    continue
                seen = True
                if isinstance(f, bool) or not isinstance(f, (int, float)) or not (0 < f < float('inf')):
                    bad.append('%s %s %s age %s: factor %r is not a number in (0, inf)' % (year, g, row[0], a, f))
print('\n'.join(bad))
sys.exit(1 if bad else 0)
'''
    code, out = plain().run_script(script)
    chk.obligations += 1
    if code == 0:
        chk.discharged += 1
        chk.trivial += 1
    elif code == 1:
        lines = [l for l in out.strip().splitlines() if l.strip()]
        allknown = True
        for l in lines[:60]:
            one = script.replace("print('\\n'.join(bad))", "bad = [b for b in bad if b == %r]\nprint('\\n'.join(bad))" % l)
            chk.report({'label': 'table-cell', 'func': 'wma single-event tables', 'kind': 'table-cell', 'args_text': l,
                        'expected': 'one positive factor per age column from the first tabulated age on', 'observed': l, 'script': one})
        chk.discharged += 1 if not chk.violations else 0
    else:
        chk.inconclusive_note('table facts script failed: %s' % out[-300:])


def run(chk, only=None):
    import random
    athlib = hc.load_athlib()
    quick = chk.tier == 'quick'
    rng = random.Random(chk.seed)
    jobs = []
    for year in (2015, 2023):
        ag = grader(year)
        data = ag.get_data()
        ages = data['ages']
        for g in 'mf':
            rows = data[g]
            og_events = set(r[0] for r in data['f' if g == 'm' else 'm'])
            for row in rows:
                lo = first_col(row, ages)
                if lo is not None and row[2] and row[0] in og_events:
                    jobs.append(('history', year, g, row[0], max(lo, 48.5), max(lo, 48.5) + 3, row[2]))
            if quick:
                rows = [r for r in rows if rng.random() < 0.3]
            for row in rows:
                ev = row[0]
                lo = first_col(row, ages)
                if lo is None or not row[2]:
                    continue
                if quick:
                    # quick tier: three windows of the age axis (start of the row, mid-table, the end and beyond); thorough: the whole axis
                    for (a0, a1) in ((lo, lo + 2.5), (48.5, 51.5), (ages[-1] - 1.5, ages[-1] + 20)):
                        jobs.append(('main', year, g, ev, a0, a1, row[2]))
                else:
                    jobs.append(('main', year, g, ev, lo, ages[-1] + 20, row[2]))
                for age in ([50] if quick else [lo, 35.5, 50, 72, ages[-1] + 3]):
                    if age >= lo:
                        jobs.append(('order', year, g, ev, age, row[2]))
                if not quick or rng.random() < 0.4:
                    jobs.append(('spelling', year, g, ev, max(lo, 47.5), row[2]))
    if only:
        jobs = [j for j in jobs if j[0] == only or only in repr(j)]
    chk.functions = ['athlib.wma.agegrader.AgeGrader.calculate_factor / find_age / find_row_by_event / world_best / calculate_age_grade / normalize_gender / event_code_to_kind',
                     'athlib.wma_age_factor / wma_world_best / wma_age_grade / wma_athlon_age_factor (concrete facts)']
    chk.stubs = ['doubles as reals with monotone rounding R (error bound 2**-53, integers exact); a / b with symbolic b: uninterpreted DIVF with sign and monotonicity facts',
                 'age: any real number in the range (over-approximates the doubles, covers integer and half-integer ages and everything between)',
                 'grade clause is a term identity: the returned term equals R(R(best*1.0/factor)/time) resp. R(mark/R(best*1.0/factor)) built from the separately returned factor and best']
    chk.bounds = {'tables': [2015, 2023], 'rows': 'seeded 30% of the rows' if quick else 'every tabulated row', 'age': ('three windows: first non-null column + 2.5 years, 48.5-51.5, last column - 1.5 .. + 20 (real-valued)' if quick else 'first non-null column .. last column + 20 (real-valued)'),
                  'performance': 'best/4 .. 8*best (grade clause), adjacent 0.01-grid marks from best/3 to 6*best (order clause)',
                  'spellings': 'gender: first letter either case + 0-2 cells over "aleALE "; event: every letter either case'}
    chk.bounds['history'] = 'every row tabulated for both genders: factor, best and grade after the same grader object answered for the other gender == the answers after the library state is put back'
    chk.outside = ['strictness of "grades higher" (only "never lower" is proved in the float abstraction)', 'wma_athlon_age_grade (the combined-events table has no open bests)',
                   'performances given as h:mm:ss text (parse_hms is C06)']
    if not only:
        concrete_facts(chk)
        table_facts(chk)
    print('C14: %d jobs' % len(jobs), flush=True)
    pool.run_jobs(chk, worker, jobs, chunksize=2, progress=100)
    chk.extra['functions_loaded_through_hook'] = hc.functions_loaded()
