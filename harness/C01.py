"""C01 - combined-events points equal the official formula on the decimal mark.

One symbolic execution of the real athlon_score.score per (row, factor):
  * the mark is a 64-bit bit-vector k (centi-units), the double is fp.div(to_fp(k), 100);
  * IEEE-754 bit-precise for everything up to and after pow; pow itself is an
    uninterpreted function PWF(base, exponent) (SMT has no pow);
  * the oracle term is built from exact integer arithmetic: N = floor (field) /
    ceil (track) of k*F/10**4 with F = 10**4 * factor exactly, then the same
    formula  guard ? max(0, trunc(A * PWF(base(N), X))) : 0  with A, Z, X from the
    frozen reference coefficient table.
cvc5 decides  exists k: code(k) != oracle(k).  Because PWF is uninterpreted this
is exactly "the number fed to the formula is the exactly rounded decimal mark,
and the formula has the reference structure and coefficients"; what libm's pow
returns in its last bit is outside the claim.
Factor selection (age -> factor, every age 1..130 symbolic) and "unknown pair ->
None" are integer/string paths decided by z3.
"""
import decimal
import json
import os
import sys
import time
from fractions import Fraction

import z3

from vlib import core, pool
from vlib.pool import JobResult
from harness import hc
from harness.C11 import D, BV, load_reference
from symrun import engine as E, floatmodel
from symrun.values import SymInt, SymFloat, fpval, RNE, F64, symint
from symrun.strings import SymStr, symcell, _mk

plain = hc.plain

SCRIPT = '''import sys, math, athlib
from fractions import Fraction
k = {k}
g, ev, age, esaa = GEVA
A, Z, X, kind, F = COEFFS
got = athlib.athlon_score(g, ev, k / 100, age, esaa=esaa)
x = Fraction(k * F, 10**4)
N = math.floor(x) if kind != 'track' else math.ceil(x)
# same formula on the exactly rounded mark (double arithmetic after the rounding stage, as in the reference structure)
if kind == 'jump':
    v = (0.01 * N) * 100
    want = max(0, int(A * ((v - Z) ** X))) if v > Z else 0
elif kind == 'throw':
    v = 0.01 * N
    want = max(0, int(A * ((v - Z) ** X))) if v > Z else 0
else:
    v = 0.01 * N
    want = max(0, int(A * ((Z - v) ** X))) if Z > v else 0
print(LABEL, 'mark', k / 100, '->', got, '; formula on the exactly rounded mark', N, 'gives', want)
sys.exit(0 if got == want else 1)
'''


def exact_round(k, F, track):
    """z3 BV: floor / ceil of k*F/10**4 (k >= 0, F > 0)"""
    num = k * BV(F)
    q = z3.UDiv(num, BV(10 ** 4))
    if not track:
        return q
    return z3.If(z3.URem(num, BV(10 ** 4)) == BV(0), q, q + BV(1))


def oracle_points(k, coeffs, F, kind):
    A, Z, X = coeffs
    N = exact_round(k, F, kind == 'track')
    fN = z3.fpSignedToFP(RNE, N, F64)
    v = z3.fpMul(RNE, fpval(0.01), fN)
    if kind == 'jump':
        v = z3.fpMul(RNE, v, fpval(100.0))
    Zt, At, Xt = fpval(float(Z)), fpval(float(A)), fpval(float(X))
    if kind == 'track':
        guard = z3.fpGT(Zt, v)
        base = z3.fpSub(RNE, Zt, v)
    else:
        guard = z3.fpGT(v, Zt)
        base = z3.fpSub(RNE, v, Zt)
    pts = z3.fpToSBV(z3.RTZ(), z3.fpMul(RNE, At, floatmodel.PWF(base, Xt)), z3.BitVecSort(64))
    pts = z3.If(pts > BV(0), pts, BV(0))
    return z3.If(guard, pts, BV(0))


def body_row(g, ev, age, esaa, coeffs, F, kind, kmin, kmax):
    def body(R):
        eng = E.cur()
        score = sys.modules['athlib.athlon_score'].score
        k = z3.BitVec(eng.fresh_name('k'), 64)
        eng.add(z3.And(k >= BV(kmin), k <= BV(kmax)))
        ks = SymInt(k)
        R.partial = {'inputs': {'k': ks}}
        v = SymFloat(z3.fpDiv(RNE, z3.fpSignedToFP(RNE, k, F64), fpval(100.0)))
        try:
            got = score(g, ev, v, age, esaa=esaa)
        except Exception as e:
            raise hc.PathFail('raises', '%s: %s' % (type(e).__name__, str(e)[:80]))
        if got is None:
            raise hc.PathFail('raises', 'returned None for a table row')
        gt = got.term if isinstance(got, SymInt) else BV(got)
        eng.check(gt == oracle_points(k, coeffs, F, kind), 'exact')
        return {'inputs': {'k': ks}, 'observe': []}
    return body


def body_prime(g, ev, age, esaa, mark):
    """an earlier call for the same event with other options (concrete mark): only the state it leaves matters"""
    def body(R):
        try:
            sys.modules['athlib.athlon_score'].score(g, ev, mark, age, esaa=esaa)
        except Exception:
            pass
        return {'inputs': {}}
    return body


def worker(job):
    t0 = time.time()
    res = JobResult()
    if job[0] == 'row':
        _, g, ev, age, esaa, coeffs, F, kind, kmin, kmax = job[:10]
        prime = job[10] if len(job) > 10 else None
        label = 'athlon_score(%r, %r, k/100, age=%r%s) k in %d..%d' % (g, ev, age, ', esaa=True' if esaa else '', kmin, kmax)
        if prime:
            label += ' after athlon_score(%r, %r, %r, age=%r, esaa=%r)' % (g, ev, prime[2], prime[0], prime[1])
        script = SCRIPT.replace('GEVA', repr((g, ev, age, esaa))).replace('COEFFS', repr((coeffs[0], coeffs[1], coeffs[2], kind, F))).replace('LABEL', repr(label))
        scripts = {'exact': script, 'raises': script, 'unexpected-exception': 'import sys\nsys.exit(0)\n'}
        R = hc.Runner(res, plain(), 'athlib.athlon_score', scripts, max_paths=64, deadline=time.time() + 3000, float_mode='F', int_bv=True, check_feasibility=False)
        R.inline = False
        R.fp_timeout_ms = 1200000
        if prime:
            R.prime_body = body_prime(g, ev, prime[0], prime[1], prime[2])
            R.prime_script = 'import athlib\nathlib.athlon_score(%r, %r, %r, %r, esaa=%r)\n' % (g, ev, prime[2], prime[0], prime[1])
        try:
            R.explore(body_row(g, ev, age, esaa, coeffs, F, kind, kmin, kmax), label)
        except E.Budget as e:
            res.inconclusive.append('%s: %s' % (label, e))
        res.extra['rows'] = 1
        res.extra['slow_jobs'] = [[label, round(time.time() - t0, 1)]] if time.time() - t0 > 120 else []
    elif job[0] == 'factor':
        factor_job(res, job[1], job[2])
    else:
        unknown_job(res, job[1])
    return res


# ------------------------------------------------------------------ factor selection (LIA)
def factor_job(res, g, ev):
    """every age 1..130: the factor is 1.0 below 35, the reference column of 5*floor(age/5), the last column beyond it"""
    data = json.load(open(os.path.join(core.REPO, 'athlib', 'wma', 'wma-athlons-data.json')))
    ages = data['ages']
    agmod = sys.modules['athlib.wma.agegrader']
    evu = ev.upper()
    row_ev = evu
    if evu[-1] == 'H' and evu not in ('LH', 'SH', '60H'):
        row_ev = 'SH' if int(evu[:-1]) <= 110 else 'LH'
    rows = {r[0]: r for r in data[g.lower()]}
    label = 'AthlonsAgeGrader.calculate_factor(%r, age, %r)' % (g, ev)
    script = ('import sys, json, athlib\nage = {age}\nfrom athlib.wma.agegrader import AthlonsAgeGrader\n'
              'data = json.load(open(%r))\nages = data["ages"]\nrow = [r for r in data[%r] if r[0] == %r]\n'
              'band = 5 * (age // 5)\n'
              'want = 1.0 if band < ages[1] else (row[0][min(ages.index(band), len(ages) - 1) if band in ages else len(ages) - 1] if row else "ValueError")\n'
              'try:\n    got = AthlonsAgeGrader().calculate_factor(%r, age, %r)\nexcept ValueError:\n    got = "ValueError"\nexcept Exception as e:\n    got = repr(e)\n'
              'print(%r, "age", age, "->", got, "reference column gives", want)\nsys.exit(0 if got == want else 1)\n' % (
                  os.path.join(core.REPO, 'athlib', 'wma', 'wma-athlons-data.json'), g.lower(), row_ev, g, ev, label))
    scripts = {'factor': script, 'raises': script, 'unexpected-exception': 'import sys\nsys.exit(0)\n'}
    R = hc.Runner(res, plain(), 'athlib.wma_athlon_age_factor', scripts, max_paths=2000, deadline=time.time() + 600)

    def body(Rr):
        eng = E.cur()
        age = symint('age', 1, 130)
        Rr.partial = {'inputs': {'age': age}}
        try:
            f = agmod.AthlonsAgeGrader().calculate_factor(g, age, ev)
        except ValueError:
            if row_ev in rows:
                raise hc.PathFail('raises', 'ValueError for a tabulated event')
            # no masters factor for this event: refused for masters ages only
            eng.check(age.term >= ages[1], 'factor')
            return {'inputs': {'age': age}, 'observe': []}
        except Exception as e:
            raise hc.PathFail('raises', '%s: %s' % (type(e).__name__, str(e)[:80]))
        if isinstance(f, bool) or not isinstance(f, (int, float)):
            raise hc.PathFail('factor', 'factor is %r' % (f,))
        band = 5 * (age.term / 5)
        if row_ev in rows:
            exp = z3.RealVal(1)
            cond_terms = []
            want = None
            # reference: column of the band, clamped to the last column
            from symrun.values import realval
            w = realval(rows[row_ev][len(ages) - 1])
            for i in range(len(ages) - 1, 0, -1):
                w = z3.If(band <= ages[i], realval(rows[row_ev][i]), w) if i < len(ages) - 1 else w
            # build explicitly: band < ages[1] -> 1.0 ; band == ages[i] -> row[i] ; band > last -> row[last]
            w = realval(rows[row_ev][len(ages) - 1])
            for i in range(len(ages) - 2, 0, -1):
                w = z3.If(band <= ages[i], realval(rows[row_ev][i]), w)
            w = z3.If(band < ages[1], z3.RealVal(1), w)
            eng.check(realval(f) == w, 'factor')
        else:
            eng.check(z3.And(band < ages[1], realval_is(f, 1.0)), 'factor')
        return {'inputs': {'age': age}, 'observe': [('__import__("athlib.wma.agegrader").wma.agegrader.AthlonsAgeGrader().calculate_factor(%r, age, %r)' % (g, ev), f)]}
    try:
        R.explore(body, label)
    except E.Budget as e:
        res.inconclusive.append('%s: %s' % (label, e))
    res.extra['factor_rows'] = 1


def realval_is(f, c):
    return z3.BoolVal(f == c)


# ------------------------------------------------------------------ unknown pairs
def unknown_job(res, with_age):
    """gender and event symbolic (short strings over letters and digits): a pair outside the table gives None, never an error"""
    score = sys.modules['athlib.athlon_score'].score
    asc = sys.modules['athlib.athlon_score']
    label = 'athlon_score(g, ev, 10.0%s) for arbitrary short g / ev' % (', age' if with_age else '')
    script = ('import sys, athlib\ng = {g}\nev = {ev}\nage = %s\n'
              'from athlib import athlon_score as _m\nimport athlib.athlon_score as M\nM._scoring_objects_create()\n'
              'known = M.scoring_key(g, "100H" if (g == "F" and ev == "80H") else "110H" if (g == "M" and ev in ("80H", "100H")) else ev) in M._scoring_objects\n'
              'try:\n    r = athlib.athlon_score(g, ev, 10.0, age)\nexcept Exception as e:\n    r = repr(e)\n'
              'print(%r, repr(g), repr(ev), "->", r)\nsys.exit(1 if (not known and r is not None) or (known and not isinstance(r, int) and age is None) else 0)\n' % (
                  ('{age}' if with_age else 'None'), label))
    scripts = {'unknown': script, 'raises': script, 'unexpected-exception': 'import sys\nsys.exit(0)\n'}
    R = hc.Runner(res, plain(), 'athlib.athlon_score', scripts, max_paths=200000, deadline=time.time() + 900)
    alphabet = 'MFXm'
    ev_alpha = 'HJLTSP0158x'

    def body(Rr):
        eng = E.cur()
        g = _mk([symcell(alphabet, 'g')])
        n = 1 + eng.choose(3, 'len')
        ev = _mk([symcell(ev_alpha, 'e%d' % i) for i in range(n)])
        ins = {'g': g, 'ev': ev}
        age = None
        if with_age:
            age = symint('age', 1, 130)
            ins['age'] = age
        Rr.partial = {'inputs': ins}
        asc._scoring_objects_create()
        try:
            r = score(g, ev, 10.0, age)
        except Exception as e:
            # a known pair with a masters age but no masters factor may be refused; anything else may not raise
            key_known = False
            try:
                ev2 = '100H' if (g == 'F' and ev == '80H') else '110H' if (g == 'M' and (ev == '80H' or ev == '100H')) else ev
                key_known = asc.scoring_key(g, ev2) in asc._scoring_objects
            except Exception:
                pass
            if key_known and with_age and isinstance(e, ValueError):
                return {'inputs': ins, 'observe': []}
            raise hc.PathFail('unknown', 'raised %s: %s' % (type(e).__name__, str(e)[:60]))
        ev2 = '100H' if (g == 'F' and ev == '80H') else '110H' if (g == 'M' and (ev == '80H' or ev == '100H')) else ev
        known = asc.scoring_key(g, ev2) in asc._scoring_objects
        if not known and r is not None:
            raise hc.PathFail('unknown', 'a score for a pair outside the table')
        if known and r is None:
            raise hc.PathFail('unknown', 'None for a table row')
        return {'inputs': ins, 'observe': [('athlib.athlon_score(g, ev, 10.0%s)' % (', age' if with_age else ''), r)] if not with_age else []}
    try:
        R.explore(body, label)
    except E.Budget as e:
        res.inconclusive.append('%s: %s' % (label, e))


# ------------------------------------------------------------------ jobs
def build_jobs(athlib, ref, quick, rng):
    codes = sys.modules['athlib.codes']
    asc = sys.modules['athlib.athlon_score']
    data = json.load(open(os.path.join(core.REPO, 'athlib', 'wma', 'wma-athlons-data.json')))
    ages = data['ages']
    jobs = []
    rows = ref['athlon']
    seen_factors = set()
    for o in rows:
        g, ev = o['gender'], o['event_code']
        coeffs = (o['A'], o['Z'], o['X'])
        jump = codes.PAT_JUMPS._real.match(ev) is not None
        throw = codes.PAT_THROWS._real.match(ev) is not None
        kind = 'jump' if jump else 'throw' if throw else 'track'
        kmax = (int(o['Z']) + 2000) if jump else (int(100 * o['Z']) + 12000) if throw else int(100 * o['Z']) + 3000
        jobs.append(('row', g, ev, None, False, coeffs, 10 ** 4, kind, kmax))
        if g == 'M' and ev == '800':
            jobs.append(('row', g, ev, None, True, (0.232, 200.0, 1.85), 10 ** 4, kind, 23000))
        elif ev == '800' or rng.random() < (0.1 if quick else 1.0):
            # the ESAA option changes the boys' 800 m only: everywhere else the reference coefficients stay
            jobs.append(('row', g, ev, None, True, coeffs, 10 ** 4, kind, kmax))
        # masters factors
        evu = ev.upper()
        row_ev = evu
        if evu[-1] == 'H' and evu not in ('LH', 'SH', '60H'):
            row_ev = 'SH' if int(evu[:-1]) <= 110 else 'LH'
        r = [x for x in data[g.lower()] if x[0] == row_ev]
        if r:
            cols = list(range(1, len(ages)))
            if quick:
                cols = [c for c in cols if rng.random() < 0.035]
            for c in cols:
                f = r[0][c]
                F = int(D(f) * 10 ** 4)
                if D(f) * 10 ** 4 != F:
                    raise core.Inconclusive('factor %r has more than 4 decimals' % f)
                jobs.append(('row', g, ev, ages[c] + (2 if c % 2 else 0), False, coeffs, F, kind, kmax))
    # veterans' hurdles remaps: 80H/100H scored as 100H/110H with the short-hurdles factor
    for g, ev, as_ev in (('F', '80H', '100H'), ('M', '80H', '110H'), ('M', '100H', '110H')):
        o = [x for x in rows if x['gender'] == g and x['event_code'] == as_ev][0]
        r = [x for x in data[g.lower()] if x[0] == 'SH'][0]
        for c in ([3, 9] if quick else range(1, len(ages))):
            jobs.append(('row', g, ev, ages[c], False, (o['A'], o['Z'], o['X']), int(D(r[c]) * 10 ** 4), 'track', int(100 * o['Z']) + 3000))
        jobs.append(('row', g, ev, None, False, (o['A'], o['Z'], o['X']), 10 ** 4, 'track', int(100 * o['Z']) + 3000))
    # split every (row, factor) into chunks of marks: a bounded k lets the solver fix the high bits
    from harness.C11 import chunks
    cj = []
    for j in jobs:
        zc = int(100 * (j[5][1] / 100.0 if j[7] == 'jump' else j[5][1]))     # the zero-point mark in centi-units
        for (a, b) in chunks(0, j[8]):
            cj.append(j[:8] + (a, b) + (a <= zc <= b,))
    full_cj = list(cj)
    if quick:
        # quick tier: a seeded sample of the (row, factor, chunk) queries; thorough runs them all
        rng.shuffle(cj)
        central = [j for j in cj if j[-1]]
        esaa = [j for j in cj if j[4]]
        keep = central[:14] + [j for j in esaa if j[2] == '800' and j[-1]] + esaa[:2] + [j for j in cj if not j[-1]][:14]
        keep = list(dict((id(j), j) for j in keep).values())
        cj = keep
    jobs = [j[:-1] for j in cj]
    # history clause: the zero-point chunk of a row again, after one earlier call for the same event with the other options (a masters
    # age, the ESAA flag switched) - the coefficient rows and the age grader are shared objects, the answer must not depend on them
    central_all = [j[:-1] for j in full_cj if j[-1] and j[3] is None]
    hist_rows = [j for j in central_all if j[2] == '800'] + ([j for j in central_all if j[2] != '800'][:2] if quick else [j for j in central_all if j[2] != '800'])
    for j in hist_rows:
        mark = round((j[8] + j[9]) / 200.0, 2)
        jobs.append(j + ((None, not j[4], mark),))
        if not quick or j[2] == '800':
            jobs.append(j + ((45, False, mark),))
    evs = sorted({o['event_code'] for o in rows} | {'80H', 'SH', 'LH'})
    for g in ('M', 'F'):
        for ev in (evs if not quick else evs[::3]):
            jobs.append(('factor', g, ev))
    jobs.append(('unknown', False))
    jobs.append(('unknown', True))
    return jobs


def run(chk, only=None):
    import random
    athlib = hc.load_athlib()
    quick = chk.tier == 'quick'
    ref = load_reference()
    live = sys.modules['athlib.athlon_score']._scoring_table
    jobs = build_jobs(athlib, ref, quick, random.Random(chk.seed))
    if only:
        jobs = [j for j in jobs if j[0] == only or (only == 'history' and j[0] == 'row' and len(j) > 10)]
    # coefficient table equals the frozen reference (what the oracle is built from)
    chk.obligations += 1
    if [dict(o) for o in live] == [dict(o) for o in ref['athlon']]:
        chk.discharged += 1
        chk.trivial += 1
    else:
        # not fatal: the oracle uses the reference, so an edited coefficient shows up as 'exact' violations below
        chk.notes.append('live coefficient table differs from reference/tables.json')
        chk.discharged += 1
    chk.functions = ['athlib.athlon_score.score', 'athlib.athlon_score.scoring_key', 'athlib.athlon_score._scoring_objects_create',
                     'athlib.wma.agegrader.AthlonsAgeGrader.calculate_factor / find_row_by_event / find_age']
    chk.stubs = ['IEEE-754 double bit-precise (QF_UFBVFP, cvc5): *, +, -, comparisons, floor/ceil/int as fp.to_sbv; a mark on the grid is fp.div(to_fp(k), 100.0)',
                 'x ** y: uninterpreted function PWF(x, y) on both sides - the last-bit behaviour of libm pow is outside the claim, everything around it is bit-precise',
                 'oracle: N = floor/ceil(k*F/10**4) in 64-bit integers (F = 10**4 * age factor exactly), then guard ? max(0, trunc(A * PWF(base(N), X))) : 0 with A, Z, X from reference/tables.json',
                 'marks given as int (100 | k) or as the floats athlon_performance_needed emits reach the same code path with the same double; only the float form is encoded']
    chk.bounds = {'jobs': len(jobs), 'marks': 'track: every k up to 100*Z + 3000 (past the zero-point); jumps: up to Z + 2000 cm; throws: up to 100*Z + 12000',
                  'ages': 'factor selection: every age 1..130 (symbolic); rounding stage: no age + %s' % ('a seeded sample of factor columns' if quick else 'every factor column of every row'),
                  'unknown_pairs': 'gender 1 char over MFXm, event 1-3 chars over "HJLTSP0158x"'}
    chk.outside = ['whether libm pow lands on the right side of an integer at a given mark (C09)', 'Decimal / str inputs', 'masters ages for events without a masters factor (refused with ValueError)']
    print('C01: %d jobs' % len(jobs), flush=True)
    pool.run_jobs(chk, worker, jobs, chunksize=1, progress=20)
    chk.extra['functions_loaded_through_hook'] = hc.functions_loaded()
