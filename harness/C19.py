"""C19 - schema validation answers do not depend on what was validated before.

One-step induction over the cache state: the real schema_valid /
valid_against_schema / _add_to_cache run from a symbolic pre-state - both module
caches hold m entries (m = 0..20) whose remembered answers are solver Booleans
tied to the validator outcome by the invariant "cached value == ok(key)" - with
the call's key (any cached key or a fresh one), expect_failure and the validator
outcome ok(key) symbolic.  Obligations: the call's outcome (True / False /
raises) equals the outcome of the same call on empty caches, and the invariant
holds afterwards (so it holds after any history).  Short call sequences are
explored on top.  File I/O and jsonschema are replaced by an uninterpreted
outcome per file; the facts about the bundled files are concrete runs of the
plain library and are reported as such.
"""
import os
import sys
import time

import z3

from vlib import core, pool
from vlib.pool import JobResult
from harness import hc
from symrun import engine as E
from symrun.values import SymBool, mkbool

SCRIPT_PRE = r'''
import sys, io, contextlib
import athlib.utils as U
import jsonschema
from jsonschema.exceptions import SchemaError, ValidationError
OK = {ok}
class V1(object):
    @classmethod
    def check_schema(cls, schema):
        if not OK.get(('schema', schema, cls.__name__), True): raise SchemaError('stub')
class V2(V1):
    pass
VS = dict(V1=V1, V2=V2)
def fake_validate(data, schema):
    if not OK.get(('doc', data, schema), True): raise ValidationError('stub')
U.jsonschema.validate = fake_validate
class F(object):
    def __init__(self, n): self.n = n
    def __enter__(self): return self
    def __exit__(self, *a): return False
U.open = lambda p, *a, **k: F(p)
class J(object):
    @staticmethod
    def load(f): return f.n
U.json = J
def call(kind, key, ef):
    try:
        with contextlib.redirect_stdout(io.StringIO()):
            r = U.schema_valid(key[0], VS[key[1]], ef) if kind == 'schema' else U.valid_against_schema(key[0], key[1], ef)
        return ('value', r)
    except (SchemaError, ValidationError) as e:
        return ('raises', type(e).__name__)
    except Exception as e:
        return ('other', type(e).__name__)
def fresh(kind, key, ef):
    U._schema_valid_cache.clear(); U._valid_against_schema_cache.clear()
    return call(kind, key, ef)
kind = {kind}
pre = {pre}
calls = {calls}
'''
SCRIPTS = {
    'history': SCRIPT_PRE + r'''
want = [fresh(kind, k, ef) for (k, ef) in calls]
U._schema_valid_cache.clear(); U._valid_against_schema_cache.clear()
# build the pre-state through the public API: one earlier call per remembered entry
for k in pre:
    call(kind, k, False)
got = [call(kind, k, ef) for (k, ef) in calls]
print('pre-state keys', pre, 'calls', calls)
print('fresh process :', want)
print('after history :', got)
sys.exit(0 if got == want else 1)
''',
    'unexpected-exception': 'import sys\nsys.exit(0)\n',
}
SCRIPTS['invariant'] = SCRIPTS['history']
SCRIPTS['size'] = SCRIPT_PRE + r'''
U._schema_valid_cache.clear(); U._valid_against_schema_cache.clear()
for k in pre: call(kind, k, False)
for (k, ef) in calls: call(kind, k, ef)
n = len(U._schema_valid_cache if kind == 'schema' else U._valid_against_schema_cache)
print('cache size', n)
sys.exit(0 if n <= 20 else 1)
'''

plain = hc.plain


class _F(object):
    def __init__(self, n):
        self.n = n

    def __enter__(self):
        return self

    def __exit__(self, *a):
        return False


class _J(object):
    @staticmethod
    def load(f):
        return f.n


def install_stubs(utils, okf):
    from jsonschema.exceptions import SchemaError, ValidationError

    class V1(object):
        @classmethod
        def check_schema(cls, schema):
            if not bool(okf(('schema', schema, cls.__name__))):
                raise SchemaError('stub')

    class V2(V1):
        pass
    V = dict(V1=V1, V2=V2)

    def fake_validate(data, schema):
        if not bool(okf(('doc', data, schema))):
            raise ValidationError('stub')
    utils.jsonschema.validate = fake_validate
    utils.__dict__['__builtins__']['open'] = lambda p, *a, **k: _F(p)
    utils.json = _J
    return V


def body(kind, m, ncalls, restricted):
    def run(R):
        utils = sys.modules['athlib.utils']
        from jsonschema.exceptions import SchemaError, ValidationError
        eng = E.cur()
        oks = {}

        def okf(key):
            if key not in oks:
                oks[key] = SymBool(z3.Bool('ok!%s' % '!'.join(map(str, key))))
            return oks[key]
        V = install_stubs(utils, okf)
        cache = utils._schema_valid_cache if kind == 'schema' else utils._valid_against_schema_cache
        utils._schema_valid_cache.clear()
        utils._valid_against_schema_cache.clear()
        if kind == 'schema':
            # the same schema file may be remembered for two validator classes
            names = [('s%02d' % (i // 2 if i < 6 else i), 'V1' if i % 2 == 0 or i >= 6 else 'V2') for i in range(m)]
            ck = lambda n: (n[0], V[n[1]])
            okkey = lambda n: ('schema', n[0], n[1])
            fresh_names = [('new_a', 'V1'), ('new_a', 'V2'), ('s00', 'V2') if m < 2 else ('new_b', 'V2')]
        else:
            names = [('d%02d' % i, 's%02d' % (i % 3)) for i in range(m)]
            ck = lambda n: n
            okkey = lambda n: ('doc', n[0], n[1])
            fresh_names = [('new_a', 's00'), ('new_b', 'new_s')]
        for n in names:
            cache[ck(n)] = okf(okkey(n))          # invariant: remembered answer == validator outcome
        choices = list(names) + fresh_names
        if restricted and m > 3:
            choices = [names[0], names[1], names[m // 2], names[-1]] + fresh_names
        calls = []
        model_inputs = {'kind': kind, 'pre': list(names), 'calls': calls, 'ok': oks}
        R.partial = {'inputs': model_inputs}
        for step in range(ncalls):
            key = choices[eng.choose(len(choices), 'key')]
            ef = bool(eng.choose(2, 'ef'))
            calls.append((key, ef))
            ok = okf(okkey(key))
            size_before = len(cache)
            had = ck(key) in cache
            try:
                if kind == 'schema':
                    r = utils.schema_valid(key[0], V[key[1]], ef)
                else:
                    r = utils.valid_against_schema(key[0], key[1], ef)
                outcome = 'value'
            except (SchemaError, ValidationError):
                outcome = 'raises'
            except Exception as e:
                raise hc.PathFail('history', 'raised %s' % type(e).__name__)
            # same outcome as the same call in a fresh process:  ok -> True ; not ok -> (raises if expect_failure else False)
            if outcome == 'value':
                rt = r.term if isinstance(r, SymBool) else z3.BoolVal(bool(r))
                if not isinstance(r, (bool, SymBool)):
                    raise hc.PathFail('history', 'returned %r' % (r,))
                eng.check(z3.And(rt == ok.term, z3.Or(ok.term, z3.BoolVal(not ef))), 'history')
            else:
                eng.check(z3.And(z3.Not(ok.term), z3.BoolVal(ef)), 'history')
            # invariant again, and the size bound
            for k2, v2 in cache.items():
                if kind == 'schema':
                    vn = [nm for nm, cls in V.items() if cls is k2[1]] if isinstance(k2, tuple) and len(k2) == 2 else []
                    if not vn:
                        raise hc.PathFail('invariant', 'cache key %r does not identify (file, validator)' % (k2,))
                    n2 = (k2[0], vn[0])
                else:
                    n2 = k2
                vt = v2.term if isinstance(v2, SymBool) else z3.BoolVal(bool(v2))
                eng.check(vt == okf(okkey(n2)).term, 'invariant')
            if len(cache) > 20:
                raise hc.PathFail('size', 'cache grew to %d' % len(cache))
            if size_before == 20 and not had and ck(key) in cache and len(cache) != 20:
                raise hc.PathFail('size', 'eviction removed %d entries' % (21 - len(cache)))
        return {'inputs': model_inputs, 'observe': []}
    return run


def conc_inputs(model, ins):
    """solver model -> concrete replay inputs (ok table as a dict of booleans)"""
    ok = {}
    for key, sb in ins['ok'].items():
        ok[key] = z3.is_true(model.eval(sb.term, model_completion=True))
    return {'kind': ins['kind'], 'pre': ins['pre'], 'calls': list(ins['calls']), 'ok': ok}


class Runner19(hc.Runner):
    pass


def worker(job):
    kind, m, ncalls, restricted = job
    res = JobResult()
    R = hc.Runner(res, plain(), 'athlib.utils.schema_valid' if kind == 'schema' else 'athlib.utils.valid_against_schema',
                  SCRIPTS, max_paths=400000, deadline=time.time() + 1500)
    # inputs are structured (dicts keyed by tuples): concretise them ourselves
    orig_conc = hc.conc

    def conc(model, v):
        if isinstance(v, dict) and v and all(isinstance(x, SymBool) for x in v.values()):
            return {k: z3.is_true(model.eval(x.term, model_completion=True)) for k, x in v.items()}
        return orig_conc(model, v)
    hc.conc = conc
    try:
        R.explore(body(kind, m, ncalls, restricted), '%s cache m=%d calls=%d' % (kind, m, ncalls))
    except E.Budget as e:
        res.inconclusive.append('%r: %s' % (job, e))
    finally:
        hc.conc = orig_conc
    return res


BUNDLED = r'''
import sys, os, io, contextlib, glob, socket
def no_net(*a, **k): raise RuntimeError('network access attempted')
socket.socket.connect = no_net
socket.create_connection = no_net
import jsonschema
from athlib.utils import schema_valid, valid_against_schema, _rootdir
bad = []
n = 0
buf = io.StringIO()
with contextlib.redirect_stdout(buf):
    for f in sorted(glob.glob(os.path.join(_rootdir, 'json', '*.json'))):
        rel = 'json/' + os.path.basename(f)
        n += 1
        if not schema_valid(rel, validator=jsonschema.Draft4Validator): bad.append(('schema not valid (draft 4)', rel))
    for f in sorted(glob.glob(os.path.join(_rootdir, 'sample-jsons', '*.json'))):
        base = os.path.basename(f)
        stem = base.split('_')[0] if not base.startswith('combined') else 'combined_performance'
        schema = 'json/%s.json' % stem
        if not os.path.exists(os.path.join(_rootdir, schema)): continue
        n += 1
        try:
            r = valid_against_schema('sample-jsons/' + base, schema)
        except Exception as e:
            bad.append(('raised %s' % type(e).__name__, base)); continue
        if r != ('invalid' not in base): bad.append(('valid=%s' % r, base))
print(n, 'bundled files checked;', bad)
sys.exit(1 if bad else 0)
'''


def bundled_files(chk):
    code, out = plain().run_script(BUNDLED)
    chk.extra['bundled_files_concrete'] = out.strip()[-400:]
    chk.obligations += 1
    if code == 0:
        chk.discharged += 1
        chk.trivial += 1
    elif code == 1:
        chk.report({'label': 'bundled-samples', 'func': 'athlib.utils.valid_against_schema', 'kind': 'bundled-samples', 'args_text': out.strip()[-300:],
                    'expected': 'valid samples validate, invalid samples do not, no network', 'observed': out.strip()[-300:], 'script': BUNDLED})
    else:
        chk.inconclusive_note('bundled-file run failed: %s' % out[-300:])


def run(chk, only=None):
    hc.load_athlib()
    quick = chk.tier == 'quick'
    jobs = []
    for kind in ('schema', 'doc'):
        for m in range(0, 21):
            jobs.append((kind, m, 1, False))
        for m in ([0, 1, 2, 19, 20] if quick else [0, 1, 2, 3, 10, 18, 19, 20]):
            jobs.append((kind, m, 2, True))
        if not quick:
            for m in (0, 1, 2, 19, 20):
                jobs.append((kind, m, 3, True))
    chk.functions = ['athlib.utils.schema_valid', 'athlib.utils.valid_against_schema', 'athlib.utils._add_to_cache', 'athlib.utils.localpath']
    chk.stubs = ['open()/json.load: a token per file name; validator.check_schema / jsonschema.validate: raise SchemaError / ValidationError iff not ok(file[, schema]) '
                 'with ok an uninterpreted Boolean per (file, validator class) resp. (document, schema); two validator classes', 'pre-state invariant: every remembered answer equals ok(key); shown inductive (checked after every call)',
                 'bundled sample / schema facts: concrete runs of the plain library with sockets disabled (not solver results)']
    chk.bounds = {'cache_entries': '0..20 (every size) for one call; call sequences of 2%s on selected sizes' % ('' if quick else ' and 3'),
                  'call_key': 'any remembered key or a fresh one (sequences on sizes > 3: first / middle / last remembered key or two fresh keys)', 'expect_failure': [False, True]}
    chk.outside = ['more than two validator classes; behaviour of jsonschema itself; concurrent callers (C16)']
    bundled_files(chk)
    pool.run_jobs(chk, worker, jobs, chunksize=1)
    chk.extra['functions_loaded_through_hook'] = hc.functions_loaded()
