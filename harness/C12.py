"""C12 - performance validation returns plausible, well-formed marks or the given error.

The real check_performance_for_discipline (and, through it, get_distance,
field_event_record, format_seconds_as_time, round_up_str_num) runs on symbolic
texts: templates of 1-3 fields of digit cells with '.' / ',' decimals, ':' / ';'
separators, leading 0: / 00:, long seconds and one junk cell, for a list of
disciplines that contains every behavioural class of the function.  Float
parsing = exact decimal value (correctly rounded), arithmetic in the reals-with-
rounding model, '%05.2f' / '%0.2f' / '%.8f' by the correct-rounding contract,
distance / duration as an uninterpreted quotient with cross-multiplied facts for
the speed limits.  Per path: the only exception is the caller's error class; a
returned timed text has seconds (and under hours minutes) below 60 and a
duration whose speed is inside the documented limits; a field result has two
decimals and stays within 1.2 x record; a multi-event result is an integer below
10000; validating the result again returns it unchanged.
"""
import itertools
import sys
import time

import z3

from vlib import core, pool
from vlib.pool import JobResult
from harness import hc
from symrun import engine as E
from symrun.values import SymInt, SymFloat, realval
from symrun.strings import SymStr, Cell, symcell, cell_test, _mk

plain = hc.plain

TIMED = ['100', '200', '400', '800', '1500', '3000', '5000', '10000', 'MAR', 'HM', '110H', '3000SC', '4x100', '10K', 'XC', '100m', '400H']
FIELD = ['HJ', 'LJ', 'SP', 'JT']
MULTI = ['DEC', 'HEP']
JUNK = ''.join(sorted(set('0123456789:;.,- xXaZ/')))
D = '0123456789'

_PRE = ('import sys, re, athlib\nfrom fractions import Fraction\nclass MyError(Exception): pass\n'
        'ev = EV\ngender = GENDER\nprec = PREC\ntext = {text}\n'
        'def run(t):\n    try:\n        return ("ok", athlib.check_performance_for_discipline(ev, t, gender=gender, errorKlass=MyError, prec=prec))\n'
        '    except MyError as e:\n        return ("refused", str(e))\n    except Exception as e:\n        return ("leak", repr(e))\n'
        'kind, r = run(text)\n')
SCRIPTS_T = {
    'leak': _PRE + "print(ev, repr(text), '->', kind, r)\nsys.exit(1 if kind == 'leak' else 0)\n",
    'shape': _PRE + (
        "ok = True\n"
        "if kind == 'ok':\n"
        "    if CLASS == 'timed':\n"
        "        m = re.fullmatch(r'(?:(\\d+):(\\d\\d):(\\d\\d)|(\\d+):(\\d\\d)|(\\d+))(\\.\\d+)?', r)\n"
        "        ok = m is not None\n"
        "        if ok:\n"
        "            g = m.groups()\n"
        "            if g[0] is not None: ok = int(g[1]) < 60 and int(g[2]) < 60\n"
        "            elif g[3] is not None: ok = int(g[4]) < 60\n"
        "            else: ok = int(g[5]) < 100\n"
        "    elif CLASS == 'field': ok = re.fullmatch(r'\\d+\\.\\d\\d', r) is not None\n"
        "    else: ok = re.fullmatch(r'\\d+', r) is not None and int(r) < 10000\n"
        "print(ev, repr(text), '->', kind, repr(r))\nsys.exit(0 if ok else 1)\n"),
    'speed': _PRE + (
        "ok = True\n"
        "if kind == 'ok' and CLASS == 'timed':\n"
        "    d = athlib.get_distance(ev)\n    t = athlib.parse_hms(r)\n"
        "    tol = Fraction(6, 1000) if prec is None else Fraction(1, 10**prec) + Fraction(1, 1000)\n"
        "    if d:\n        T = Fraction(t)\n        ok = T > 0 and (T + tol) * (11 if d <= 400 else 10) >= d and (T - tol) <= 2 * d\n"
        "    print(ev, repr(text), '->', repr(r), 'distance', d, 'duration', t)\n"
        "if kind == 'ok' and CLASS == 'field':\n"
        "    T = getattr(athlib.utils, 'field_event_records_by_gender'.upper())\n    rec = T.get((gender or 'all').lower(), T['all']).get(ev.upper())\n    ok = (not rec) or float(r) <= rec * 1.2 * (1 + 1e-9)\n    print(ev, repr(text), '->', repr(r), 'record', rec)\n"
        "sys.exit(0 if ok else 1)\n"),
    'idempotent': _PRE + "k2, r2 = run(r) if kind == 'ok' else (kind, r)\nprint(ev, repr(text), '->', repr(r), '->', k2, repr(r2))\nsys.exit(0 if kind != 'ok' or (k2 == 'ok' and r2 == r) else 1)\n",
    'unexpected-exception': 'import sys\nsys.exit(0)\n',
}


class MyError(Exception):
    pass


def scripts(ev, gender, prec, cls):
    return {k: v.replace('EV', repr(ev)).replace('GENDER', repr(gender)).replace('PREC', repr(prec)).replace('CLASS', repr(cls)) for k, v in SCRIPTS_T.items()}


def templates(quick):
    """list of templates; a template is a list of cell domains (str of allowed chars)"""
    out = []
    secs = [[D, D], [D], [D, D, '.', D, D], [D, D, '.', D], [D, '.', D, D], [D, D, ',', D, D], [D, D, '.', D, D, D], [D, D, D], [D, D, D, '.', D, D], [D, D, D, D]]
    for s in secs:
        out.append(s)
    for sep in ':;':
        for m in ([D], [D, D]):
            for s in ([D, D], [D, D, '.', D, D], [D, D, '.', D], [D, D, '.', D, D, D], [D], [D, D, D]):
                out.append(m + [sep] + s)
    for h in ([D], [D, D]):
        for s in ([D, D], [D, D, '.', D, D], [D, D, '.', D, D, D]):
            out.append(h + [':'] + [D, D] + [':'] + s)
    out.append(['0', ':', D, D, '.', D, D])
    out.append(['0', '0', ':', D, D, ':', D, D])
    out.append([D, ':', D, D, ';', D, D])
    out.append([' ', D, D, '.', D, D, ' '])
    # one junk cell at the front, in the middle, at the end
    out.append([JUNK, D, D, '.', D, D])
    out.append([D, D, JUNK, D, D])
    out.append([D, ':', D, D, JUNK])
    out.append([D, D, '.', D, JUNK, D])
    out.append([])
    if quick:
        out = out[::2] + [out[1]]
    return out


def mk(template, tag='t'):
    return _mk([symcell(dom, '%s%d' % (tag, i)) if len(dom) > 1 else dom for i, dom in enumerate(template)])


def digits_value(cells):
    t = z3.IntVal(0)
    for c in cells:
        t = t * 10 + ((c.var - 48) if isinstance(c, Cell) else z3.IntVal(ord(c) - 48))
    return t


def parse_result_timed(r):
    """fields of a returned timed text -> (hours term|None, minutes term|None, seconds-int term, ok)"""
    cells = SymStr.lift(r).cells
    fields = [[]]
    for c in cells:
        if cell_test(c, lambda ch: ch == ':'):
            fields.append([])
        else:
            fields[-1].append(c)
    if not (1 <= len(fields) <= 3):
        return None
    last = fields[-1]
    dots = [i for i, c in enumerate(last) if cell_test(c, lambda ch: ch == '.')]
    if len(dots) > 1:
        return None
    sec_int = last[:dots[0]] if dots else last
    frac = last[dots[0] + 1:] if dots else []
    for f in fields[:-1] + [sec_int, frac]:
        if not all(cell_test(c, lambda ch: ch in D) for c in f):
            return None
    if not sec_int or any(not f for f in fields[:-1]) or (dots and not frac):
        return None
    if len(fields) > 1 and len(sec_int) != 2:
        return None
    if len(fields) == 3 and len(fields[1]) != 2:
        return None
    return fields, sec_int, frac


def body(ev, cls, template, gender, prec):
    def run(R):
        utils = sys.modules['athlib.utils']
        eng = E.cur()
        eng.exact_floats = True
        eng.div_consts = [realval(11.0), realval(10.0), realval(0.5)]
        text = mk(template)
        ins = {'text': text}
        R.partial = {'inputs': ins}
        try:
            r = utils.check_performance_for_discipline(ev, text, gender=gender, errorKlass=MyError, prec=prec)
        except MyError:
            return {'inputs': ins, 'observe': []}
        except Exception as e:
            raise hc.PathFail('leak', type(e).__name__)
        if not isinstance(r, (str, SymStr)):
            raise hc.PathFail('shape', 'returned %s' % type(r).__name__)
        if cls == 'timed':
            if ev.lower() == 'xc' and not SymStr.lift(r).cells:
                return {'inputs': ins, 'observe': []}
            pr = parse_result_timed(r)
            if pr is None:
                raise hc.PathFail('shape', 'malformed %r' % (r,))
            fields, sec_int, frac = pr
            known = {}
            if len(fields) == 1:
                # recorded known finding C12-rounds-to-100: the printed value is exactly '100' (99.995.. rounded up)
                known['C12-rounds-to-100'] = hc.symstr_eq_term(r, '100')
            eng.check(digits_value(sec_int) < (60 if len(fields) > 1 else 100), 'shape', {'known_class': known})
            if len(fields) == 3:
                eng.check(digits_value(fields[1]) < 60, 'shape')
            d = utils.get_distance(ev)
            if d:
                # exact duration of the returned text (hundredths) against the speed limits, cross-multiplied
                scale = 10 ** len(frac)
                total = z3.IntVal(0)
                for f in fields[:-1]:
                    total = total * 60 + digits_value(f)
                total = (total * 60 + digits_value(sec_int)) * scale + (digits_value(frac) if frac else 0)
                vmax = 11 if d <= 400 else 10
                # 0.5 <= d / T <= vmax for the printed duration T = total/scale, allowing the 0.006 s by which printing to two
                # decimals (or rounding up to prec) can move it away from the duration the library checked
                T = z3.ToReal(total) / scale
                tol = z3.RealVal('6/1000') if prec is None else z3.RealVal(1) / (10 ** prec) + z3.RealVal('1/1000')
                # (a printed duration of zero has no speed inside any limit: no exemption for it - the first version of this clause
                # copied the library's own `if distance and duration` guard and thereby hid that '0' was accepted)
                eng.check(z3.And(total > 0, (T + tol) * vmax >= d, (T - tol) <= 2 * d), 'speed')
        elif cls == 'field':
            cells = SymStr.lift(r).cells
            dots = [i for i, c in enumerate(cells) if cell_test(c, lambda ch: ch == '.')]
            if len(dots) != 1 or len(cells) - dots[0] - 1 != 2 or dots[0] == 0 or not all(cell_test(c, lambda ch: ch in D) for i, c in enumerate(cells) if i != dots[0]):
                raise hc.PathFail('shape', 'malformed %r' % (r,))
            # the record table itself, not the library's lookup helper: a gender the table does not know is held to the overall record
            T = utils.FIELD_EVENT_RECORDS_BY_GENDER
            rec = T.get((gender or 'all').lower(), T['all']).get(ev.upper())
            if rec:
                val = digits_value(cells[:dots[0]]) * 100 + digits_value(cells[dots[0] + 1:])
                eng.check(z3.ToReal(val) <= realval(rec) * 120 * (1 + z3.RealVal('1/1000000')), 'speed')
        else:
            cells = SymStr.lift(r).cells
            if not cells or not all(cell_test(c, lambda ch: ch in D) for c in cells):
                raise hc.PathFail('shape', 'malformed %r' % (r,))
            eng.check(digits_value(cells) < 10000, 'shape')
        # validating the result again returns it unchanged
        try:
            r2 = utils.check_performance_for_discipline(ev, r, gender=gender, errorKlass=MyError, prec=prec)
        except MyError as e:
            raise hc.PathFail('idempotent', 'the returned value is refused when validated again')
        except Exception as e:
            raise hc.PathFail('leak', 'on the result: %s' % type(e).__name__)
        eng.check(hc.symstr_eq_term(r, r2), 'idempotent')
        return {'inputs': ins, 'observe': []}
    return run


def worker(job):
    ev, cls, template, gender, prec, budget = job[:6]
    prime_gender = job[6] if len(job) > 6 else None
    res = JobResult()
    R = hc.Runner(res, plain(), 'athlib.check_performance_for_discipline', scripts(ev, gender, prec, cls), max_paths=100000, deadline=time.time() + budget,
                  r_axioms=('mono', 'err', 'int'))
    label = '%s %r gender=%s prec=%s' % (ev, ''.join(d if len(d) == 1 else ('d' if d == D else '?') for d in template), gender, prec)
    if prime_gender is not None:
        # history clause: the same event validated for another gender first (a text of the same template, digits of its own)
        label += ' after the same event for gender=%s' % prime_gender
        R.prime_body = body(ev, cls, template, prime_gender, prec)
        R.prime_script = ('import athlib\ntry:\n    athlib.check_performance_for_discipline(%r, {text}, gender=%r, prec=%r)\nexcept Exception:\n    pass\n' % (ev, prime_gender, prec))
    try:
        R.explore(body(ev, cls, template, gender, prec), label)
    except E.Budget as e:
        res.inconclusive.append('%s: %s' % (label, e))
    return res


def run(chk, only=None):
    hc.load_athlib()
    quick = chk.tier == 'quick'
    tmpls = templates(quick)
    jobs = []
    budget = 300 if quick else 1500
    timed = TIMED if not quick else ['100', '400', '800', '1500', '5000', 'MAR', '110H', 'XC', '4x100', '100m']
    for ev in timed:
        for t in tmpls:
            jobs.append((ev, 'timed', t, 'all', None, budget))
        for t in tmpls[::4]:
            jobs.append((ev, 'timed', t, 'all', 2, budget))
    for ev in FIELD:
        for t in tmpls:
            if t.count(':') + t.count(';') == 0 or not quick:
                for g in ('m', 'f', 'all', 'x'):
                    jobs.append((ev, 'field', t, g, None, budget))
    plain_marks = [t for t in tmpls if t.count(':') + t.count(';') == 0 and any(d == D for d in t)]
    for ev in FIELD:
        for t in plain_marks[:3] if quick else plain_marks:
            for g, pg in (('f', 'm'), ('m', 'f'), ('all', 'f')):
                jobs.append((ev, 'field', t, g, None, budget, pg))
    for ev in MULTI:
        for t in tmpls[::2]:
            jobs.append((ev, 'multi', t, 'all', None, budget))
    if only:
        jobs = [j for j in jobs if j[0] == only]
    chk.functions = ['athlib.utils.check_performance_for_discipline', 'athlib.utils.get_distance', 'athlib.utils.field_event_record', 'athlib.utils.format_seconds_as_time',
                     'athlib.utils.round_up_str_num', 'athlib.codes.PAT_PERF / PAT_RACES_FOR_DISTANCE / PAT_RELAYS (symbolic matcher)']
    chk.stubs = ['float(text)/int(text) on digit cells: exact decimal value; the doubles of this function are modelled by their exact real values - ASSUMPTION: every float comparison it makes '
                 '(seconds >= 100, minutes > 45, speed against 0.5 / 10 / 11, record * 1.2) is between quantities with at most three decimals, so a non-zero exact difference is at least 1e-7 relative '
                 'while the accumulated rounding error is below 1e-14, and exact equality only occurs at exactly representable values',
                 "'%05.2f' / '%0.2f' / '%.8f' % x: the text denotes round(x * 10**n) (correct rounding; ties either way)",
                 'distance / duration: uninterpreted quotient with cross-multiplied comparison facts for 0.5, 10 and 11 m/s',
                 'the speed clause is evaluated on the exact decimal value of the returned text (tolerance 1e-6 relative)']
    chk.bounds = {'disciplines': {'timed': timed, 'field': FIELD, 'multi': MULTI}, 'text_templates': len(tmpls),
                  'template_grammar': '1-3 fields of 1-2 digits (1-4 for a lone seconds field), 0-3 decimals after . or ,, separators : or ;, leading 0: / 00:, surrounding blanks, one junk cell over %r, the empty text' % JUNK,
                  'gender': ['m', 'f', 'all', 'x'], 'prec': [None, 2]}
    chk.outside = ['texts whose value is an exact decimal tie at the printed precision (e.g. 36.365 printed to two decimals): the rounding direction depends on the binary representation', 'fixed-duration races and custom H/L events (their result is str(float), not modelled)', 'weight-specific and lower-case field codes (classified by tuple membership in the library)',
                   'texts outside the template grammar', 'event codes other than the listed representatives of each behavioural class']
    print('C12: %d (discipline, template) jobs' % len(jobs), flush=True)
    pool.run_jobs(chk, worker, jobs, chunksize=2, progress=200)
    chk.extra['functions_loaded_through_hook'] = hc.functions_loaded()
