"""C17 - implement weights and weight-specific codes stay inside the vocabulary.

The real get_implement_weight / get_specific_event_code run on symbolic age-group
labels: 'U' + decimal rendering of a symbolic integer, 'V%02d' of a symbolic
multiple of five (two- and three-digit renderings are separate digit-cell
strings), and strings of free cells.  String comparisons inside the library
fork on the cells; closure in PAT_THROWS, idempotent normalisation, weight
equality and masters monotonicity are checked per path / as z3 obligations over
two labels.  Table keys: every event-code key of the scoring / age-grading
tables is tested with the real checker and with the z3 language of C04.
"""
import sys
import time
import json
import os

import z3

from vlib import core, pool, relang
from vlib.pool import JobResult
from harness import hc
from harness.C07 import mk_string
plain = hc.plain
from symrun import engine as E, templates as T
from symrun.values import SymInt, symint
from symrun.strings import SymStr, symcell, _mk
from symrun.shadow import render_int

THROWS5 = ['SP', 'DT', 'HT', 'JT', 'WT']
FREE_ALPHABET = 'UVSENMuv0123456789 -'

_PRE = 'import sys, athlib\nfrom athlib import codes\nev = {ev}\ng = {g}\nag = {ag}\n'
SCRIPTS = {
    'raises': _PRE + ("try:\n    r = athlib.get_specific_event_code(ev, g, ag); bad = False\nexcept Exception as e:\n    r = repr(e); bad = True\n"
                      "print(ev, g, repr(ag), '->', r)\nsys.exit(1 if bad else 0)\n"),
    'not-a-throws-code': _PRE + ("r = athlib.get_specific_event_code(ev, g, ag)\nok = codes.PAT_THROWS.match(r) is not None and athlib.check_event_code(r) is not None\n"
                                 "print(ev, g, repr(ag), '->', repr(r))\nsys.exit(0 if ok else 1)\n"),
    'not-normalised': _PRE + ("r = athlib.get_specific_event_code(ev, g, ag)\nn = athlib.normalize_event_code(r)\n"
                              "print(ev, g, repr(ag), '->', repr(r), 'normalises to', repr(n))\nsys.exit(0 if n == r else 1)\n"),
    'weight-differs': _PRE + ("r = athlib.get_specific_event_code(ev, g, ag)\nw = athlib.get_implement_weight(ev, g, ag)\n"
                              "num = r[len(ev):].rstrip('K')\nprint(ev, g, repr(ag), '->', repr(r), 'table', repr(w))\n"
                              "sys.exit(0 if (w == '' and r == ev) or (w != '' and num != '' and float(num) == float(w) and (r.endswith('K') == (float(w) < 99))) else 1)\n"),
    'passthrough': 'import sys, athlib\nev = {ev}\ng = {g}\nag = {ag}\n' + (
        "r = athlib.get_specific_event_code(ev, g, ag)\nprint(repr(ev), '->', repr(r))\nsys.exit(0 if r == ev else 1)\n"),
    'masters-heavier': 'import sys, athlib\nev = {ev}\ng = {g}\nv1 = {v1}\nv2 = {v2}\n' + (
        "w1 = athlib.get_implement_weight(ev, g, 'V%02d' % v1)\nw2 = athlib.get_implement_weight(ev, g, 'V%02d' % v2)\n"
        "print(ev, g, v1, repr(w1), v2, repr(w2))\n"
        "sys.exit(1 if v1 < v2 and (w1 == '' or w2 == '' or float(w2) > float(w1)) else 0)\n"),
    'unexpected-exception': _PRE + "sys.exit(0)\n",
}


def label_of(kind):
    """symbolic age-group label"""
    eng = E.cur()
    if kind == 'U':
        u = symint('u', 9, 23)
        return _mk(['U'] + SymStr.lift(render_int(u)).cells), {'u': u}
    if kind == 'V':
        m = symint('m', 7, 26)          # V35 .. V130
        v = m * 5
        return _mk(['V'] + SymStr.lift(render_int(v, 2, True)).cells), {'v': v}
    if kind == 'SEN':
        return 'SEN', {}
    if kind == 'free':
        n = eng.choose(5, 'len')
        return _mk([symcell(FREE_ALPHABET, 'f%d' % i) for i in range(n)]), {}
    raise ValueError(kind)


def body_label(ev, g, kind):
    def body(R):
        athlib = hc._athlib
        codes = sys.modules['athlib.codes']
        impl = sys.modules['athlib.implements']
        ag, _ = label_of(kind)
        inputs = {'ev': ev, 'g': g, 'ag': ag}
        R.partial = {'inputs': inputs}
        try:
            r = impl.get_specific_event_code(ev, g, ag)
        except Exception as e:
            raise hc.PathFail('raises', type(e).__name__)
        w = impl.get_implement_weight(ev, g, ag)
        if ev in THROWS5:
            if codes.PAT_THROWS.match(r) is None or athlib.check_event_code(r) is None:
                raise hc.PathFail('not-a-throws-code')
            if not (athlib.normalize_event_code(r) == r):
                raise hc.PathFail('not-normalised')
            # the weight in the code is the table's weight
            if isinstance(r, str) and isinstance(w, str):
                num = r[len(ev):].rstrip('K')
                ok = (w == '' and r == ev) or (w != '' and num != '' and float(num) == float(w) and (r.endswith('K') == (float(w) < 99)))
                if not ok:
                    raise hc.PathFail('weight-differs')
            else:
                raise E.Unsupported('symbolic weight text')
            if kind in ('U', 'V', 'SEN') and g in ('M', 'F') and w == '' and kind == 'V':
                raise hc.PathFail('masters-heavier', 'no weight for a masters band')
        else:
            if not (r == ev):
                raise hc.PathFail('passthrough')
        return {'inputs': inputs, 'observe': [('athlib.get_specific_event_code(ev, g, ag)', r), ('athlib.get_implement_weight(ev, g, ag)', w)]}
    return body


SCRIPT_HISTORY = ('import sys, athlib\nev, g, ag = {ev}, {g}, {ag}\npev, pg, pag = {pev}, {pg}, {pag}\n' + hc.FRESH_SRC +
                  "f = lambda: (athlib.get_specific_event_code(ev, g, ag), athlib.get_implement_weight(ev, g, ag))\n"
                  "a = fresh(f)\nhere(lambda: (athlib.get_specific_event_code(pev, pg, pag), athlib.get_implement_weight(pev, pg, pag)))\nb = here(f)\n"
                  "print(ev, g, ag, '-> fresh', a, '; after the same questions for', pev, pg, pag, '->', b)\nsys.exit(0 if a == b else 1)\n")


def body_history(ev, g, kind, pev, pg, pkind):
    """code and weight for one (event, gender, label) after the same two functions answered for another (event, gender, label with symbolic
    digits of its own) equal the answers obtained once the library state has been put back (module-level lists / dicts of the
    implement rules must not be changed by a lookup)"""
    def body(R):
        impl = sys.modules['athlib.implements']
        eng = E.cur()
        ag, _ = label_of(kind)
        pag, _ = label_of(pkind)
        inputs = {'ev': ev, 'g': g, 'ag': ag, 'pev': pev, 'pg': pg, 'pag': pag}
        R.partial = {'inputs': inputs}

        def both(e_, g_, a_):
            try:
                return (impl.get_specific_event_code(e_, g_, a_), impl.get_implement_weight(e_, g_, a_))
            except Exception as e:
                return ('raises', type(e).__name__)
        both(pev, pg, pag)
        r1 = both(ev, g, ag)
        hc.reset_library_state()
        r0 = both(ev, g, ag)
        for x, y in zip(r0, r1):
            if isinstance(x, SymStr) or isinstance(y, SymStr):
                eng.check(hc.symstr_eq_term(x, y), 'history')
            elif x != y:
                raise hc.PathFail('history', 'fresh %r, after the other lookup %r' % (r0, r1))
        return {'inputs': inputs, 'observe': []}
    return body


def body_monotone(ev, g):
    def body(R):
        impl = sys.modules['athlib.implements']
        eng = E.cur()
        m1 = symint('m1', 7, 26)
        m2 = symint('m2', 7, 26)
        eng.assume(m1 < m2)
        v1, v2 = m1 * 5, m2 * 5
        R.partial = {'inputs': {'ev': ev, 'g': g, 'v1': v1, 'v2': v2}}
        a1 = _mk(['V'] + SymStr.lift(render_int(v1, 2, True)).cells)
        a2 = _mk(['V'] + SymStr.lift(render_int(v2, 2, True)).cells)
        w1 = impl.get_implement_weight(ev, g, a1)
        w2 = impl.get_implement_weight(ev, g, a2)
        if w1 == '' or w2 == '' or float(w2) > float(w1):
            raise hc.PathFail('masters-heavier', '%r then %r' % (w1, w2))
        return {'inputs': {'ev': ev, 'g': g, 'v1': v1, 'v2': v2},
                'observe': [("athlib.get_implement_weight(ev, g, 'V%02d' % v1)", w1), ("athlib.get_implement_weight(ev, g, 'V%02d' % v2)", w2)]}
    return body


def body_other(template, g):
    def body(R):
        impl = sys.modules['athlib.implements']
        athlib = hc._athlib
        ev = mk_string(template)
        ag, _ = label_of('V')
        R.partial = {'inputs': {'ev': ev, 'g': g, 'ag': ag}}
        if athlib.check_event_code(ev) is None:
            return {'inputs': {'ev': ev, 'g': g, 'ag': ag}, 'observe': []}
        for t in THROWS5:
            if ev == t:
                return {'inputs': {'ev': ev, 'g': g, 'ag': ag}, 'observe': []}
        try:
            r = impl.get_specific_event_code(ev, g, ag)
        except Exception as e:
            raise hc.PathFail('raises', type(e).__name__)
        E.cur().check(hc.symstr_eq_term(r, ev), 'passthrough')
        return {'inputs': {'ev': ev, 'g': g, 'ag': ag}, 'observe': [('athlib.get_specific_event_code(ev, g, ag)', r)]}
    return body


def worker(job):
    kind = job[0]
    res = JobResult()
    R = hc.Runner(res, plain(), 'athlib.get_specific_event_code', SCRIPTS, max_paths=50000, deadline=time.time() + 300)
    try:
        if kind == 'label':
            R.explore(body_label(*job[1:]), 'label %s %s %s' % job[1:])
        elif kind == 'history':
            R.scripts = dict(R.scripts, history=SCRIPT_HISTORY)
            R.explore(body_history(*job[1:]), 'history %s %s %s after %s %s %s' % job[1:])
        elif kind == 'mono':
            R.func = 'athlib.get_implement_weight'
            R.explore(body_monotone(*job[1:]), 'monotone %s %s' % job[1:])
        else:
            R.explore(body_other(*job[1:]), 'other %s %s' % (T.show(job[1]), job[2]))
    except E.Budget as e:
        res.inconclusive.append('%s: %s' % (job[:1], e))
    return res


def table_keys(athlib):
    """every event-code key of the library's scoring / age-grading tables, with where it came from"""
    keys = []
    ascore = sys.modules['athlib.athlon_score']
    for o in ascore._scoring_table:
        keys.append(('athlon', o['event_code']))
    hs = sys.modules['athlib.hungarian_score']
    for row in hs.FACTORS:
        keys.append(('hungarian', row[2]))
    ty = sys.modules['athlib.tyrving_score']
    for g, d in ty._tyrvingTables.items():
        for k in d:
            keys.append(('tyrving', k))
    qk = sys.modules['athlib.qkids_score']
    for t, d in qk._qkidsTables.items():
        for k in d:
            keys.append(('qkids', k))
    sh = sys.modules['athlib.sportshall_score']
    for k in sh.load_data():
        keys.append(('sportshall', k))
    bg = sys.modules['athlib.bulgarian_score']
    import re as _re
    for k in bg.scores:
        m = _re.match(r'^(U\d\d)([MFX])(.+)$', k)
        keys.append(('bulgarian', m.group(3) if m else k))
    wma = os.path.join(core.REPO, 'athlib', 'wma')
    for fn, col in (('wma-data-2015.json', 0), ('wma-data-2023.json', 0), ('wma-athlons-data.json', 0)):
        data = json.load(open(os.path.join(wma, fn)))
        for g in ('m', 'f'):
            for row in data[g]:
                keys.append((fn, row[col]))
    return sorted(set(keys))


def check_table_keys(chk, athlib):
    codes = sys.modules['athlib.codes']
    keys = table_keys(athlib)
    L = relang.to_z3(codes.PAT_EVENT_CODE._real)
    known_rejected = set()
    n = 0
    for where, k in keys:
        chk.obligations += 1
        real = codes.PAT_EVENT_CODE._real.match(k) is not None
        t0 = time.time()
        sol = z3.Solver()
        sol.add(z3.InRe(z3.StringVal(k), L))
        zr = str(sol.check()) == 'sat'
        chk.count_query('z3-%s' % z3.get_version_string(), time.time() - t0)
        if zr != real:
            chk.inconclusive_note('table key %r: re says %s, z3 language says %s' % (k, real, zr))
            continue
        n += 1
        if real:
            chk.discharged += 1
        else:
            script = ("import sys, athlib\nk = %r\nok = athlib.check_event_code(k) is not None\nprint(%r, repr(k), 'accepted' if ok else 'REJECTED')\n"
                      "sys.exit(0 if ok else 1)\n" % (k, where))
            code, out = plain().run_script(script)
            if code == 1:
                chk.report({'label': 'table-key-rejected', 'func': 'athlib.check_event_code', 'kind': 'table-key-rejected',
                            'args_text': '%s key %r' % (where, k), 'expected': 'accepted by check_event_code', 'observed': out.strip(), 'script': script})
            else:
                chk.inconclusive_note('table key %r rejection did not reproduce' % k)
    chk.extra['table_keys_checked'] = n
    chk.sample({'table_keys': keys[:8]})


def run(chk, only=None):
    athlib = hc.load_athlib()
    import athlib.hungarian_score, athlib.bulgarian_score  # noqa
    codes = sys.modules['athlib.codes']
    quick = chk.tier == 'quick'
    jobs = []
    for ev in THROWS5:
        for g in ('M', 'F', 'X'):
            for kind in ('U', 'V', 'SEN') + (('free',) if g != 'X' else ()):
                jobs.append(('label', ev, g, kind))
        for g in ('M', 'F'):
            jobs.append(('mono', ev, g))
            og = 'F' if g == 'M' else 'M'
            oev = THROWS5[(THROWS5.index(ev) + 1) % len(THROWS5)]
            for kind in ('U', 'V'):
                for (pev, pg, pkind) in ((ev, og, 'U'), (ev, og, 'V'), (oev, og, 'U'), (ev, g, 'V' if kind == 'U' else 'U')):
                    jobs.append(('history', ev, g, kind, pev, pg, pkind))
    small = T.templates_of(codes.PAT_EVENT_CODE._real, T.Rule(plus=(1, 2), star=(0, 1), ws=(0,), max_ws=0))
    small = [t for t in small if not (any(d == frozenset('c') for d in t) and any(d == frozenset('m') for d in t))]
    if quick:
        small = small[::2]
    for t in small:
        jobs.append(('other', t, 'M'))
    chk.functions = ['athlib.implements.get_implement_weight', 'athlib.implements._masters_band', 'athlib.implements.get_specific_event_code',
                     'athlib.utils.normalize_event_code', 'athlib.utils.check_event_code', 'athlib.codes.PAT_THROWS / PAT_EVENT_CODE']
    chk.stubs = ["labels: 'U' + str(u) for symbolic u in 9..23; 'V%02d' % (5*m) for symbolic m in 7..26 (V35..V130); 'SEN'; free labels of 0-4 cells over "
                 + repr(FREE_ALPHABET), 'decimal rendering of a symbolic integer = digit-cell string with value constraint (forks on digit count)',
                 'gender X (outside M/F) included: the library reports no weight and must keep the generic code']
    chk.bounds = {'events': THROWS5, 'genders': ['M', 'F', 'X'], 'masters_bands': 'V35..V130 in fives', 'other_code_templates': len(small)}
    chk.outside = ['masters bands above V130', 'free labels longer than 4 characters or outside the stated alphabet']
    check_table_keys(chk, athlib)
    pool.run_jobs(chk, worker, jobs, chunksize=2)
    chk.extra['functions_loaded_through_hook'] = hc.functions_loaded()
