#!/bin/bash
# usage: tools/try_seed.sh <patch.diff> <property> [tier] [extra check args...]
# applies a seeded change to /repo, runs the baseline suite and the check, restores /repo.
P="$1"; ID="$2"; TIER="${3:-quick}"; shift 3 2>/dev/null
cd /repo || exit 9
if ! git diff --quiet; then echo "repo dirty"; exit 9; fi
git apply "$P" || { echo "patch does not apply"; exit 9; }
echo "--- suite:"; /venv/bin/python -m pytest -q -p no:cacheprovider tests 2>&1 | tail -1
cd /verif && echo "--- check $ID $TIER:" && timeout 3000 bin/check "$ID" --tier "$TIER" "$@" 2>&1 | grep -v '^  ' | tail -6 | cut -c1-260
echo "exit=${PIPESTATUS[0]}"
cd /repo && git checkout -- . && git status --short | grep -v '^??' | head -3
