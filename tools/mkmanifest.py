#!/usr/bin/env python3
"""Regenerate MANIFEST.json from the table below (kept in one place so that
claimed / not-applicable lists never drift apart)."""
import json, os
HERE = os.path.dirname(os.path.dirname(os.path.abspath(__file__)))

CLAIMED = {
    'C04': dict(
        category='proof', design_ref='DESIGN.md section 3 C04, 2.2',
        technique='regex parse tree -> z3 regular-language terms; emptiness queries on an unbounded symbolic string (SMT, z3 seq/re solver)',
        text='Every union-exactness and disjointness clause is one z3 query over a symbolic string of unbounded length and the full '
             'Unicode alphabet; unsat means no string of any length violates the clause. Language-level facts need a decision '
             'procedure, not a length bound, so "proof" (machine-discharged obligations, no bound) is the right level.',
        note='Trusted: z3 5.1 regex solver, vlib/relang.py translation (validated each run against the real re on ~1200 strings from '
             'the repo and on every witness), CPython sre parser. match() == language membership because no look-around/backrefs occur (checked).'),
    'C07': dict(
        category='model_checking', design_ref='DESIGN.md section 3 C07, 2.1, 2.2',
        technique='symbolic execution of the real normalize_event_code on symbolic-character templates of the live regex parse tree; z3 path conditions, witnesses and equality queries',
        text='Bounded symbolic checking: every template of PAT_EVENT_CODE within the stated repeat/whitespace bounds is executed with all '
             'characters symbolic; each path covers every string of its cell domains and is decided by the path condition (z3), so the '
             'claim holds for all strings of the bounded grammar, not for samples of it.',
        note='Assumes the symbolic regex matcher and string proxies agree with CPython (validated on one solver witness per path against the plain library) '
             'and the representative character domains (0-9 + 2 non-ASCII digits, 29 whitespace chars). Bounds in evidence.'),
    'C10': dict(
        category='model_checking', design_ref='DESIGN.md section 3 C10',
        technique='symbolic execution of the real sort-key / distance / classifier functions on symbolic-character templates of the live event-code regex; z3 obligations on the returned terms',
        text='Bounded symbolic checking over the template language of PAT_EVENT_CODE: totality is "no exception on any feasible path", the ordering clauses are '
             'z3 obligations between the returned key terms and the digits matched by the patterns; text-key/tuple-key agreement follows from per-code structure '
             'obligations plus a fixed-width lemma, and is cross-checked on symbolic template pairs.',
        note='Assumes the symbolic matcher / string / formatting proxies agree with CPython (validated per path on a solver witness); float(text) of digits modelled as correctly '
             'rounded rational (reals-with-rounding), so int(1000*qty) is only proved up to that abstraction. Bounds in evidence.'),
    'C17': dict(
        category='model_checking', design_ref='DESIGN.md section 3 C17',
        technique='symbolic execution of the real implement-weight functions on symbolic age-group labels (digit-cell renderings of symbolic integers, free cells); z3 path conditions; table keys via real re and the z3 regex language',
        text='Bounded symbolic checking: the age-group label is symbolic (every U-label 9..23, every masters band V35..V130 in fives in two- and three-digit '
             'renderings, free labels of up to 4 cells), the library\'s own string comparisons fork on the cells, and each clause is decided on every path; '
             'monotonicity is a two-label path exploration. Table keys are a finite set checked exhaustively.',
        note='Assumes the string / formatting proxies agree with CPython (validated per path on a solver witness against the plain library). Bounds in evidence.'),
    'C06': dict(
        category='model_checking', design_ref='DESIGN.md section 3 C06',
        technique='symbolic execution of the real round_up_str_num / format_seconds_as_time / parse_hms on digit-cell strings and a symbolic duration; integer ceiling oracle as z3 LIA obligations; float formatting by a correct-rounding contract',
        text='Bounded symbolic checking: every digit, the duration (integer seconds 0..359999 and the 8-decimal fixed-point fraction) and every text cell are solver variables; '
             'each path ends in z3 obligations against the exact integer ceiling / sexagesimal oracle, so the claim holds for all values in the bounds. The float part is closed by an LRA lemma.',
        note='Assumes CPython formats floats with correct rounding (\'%.8f\' denotes round(x*1e8)), int(x) truncates and x-int(x) is exact for 0<=x<2**53 (IEEE facts), and that the string proxies agree with '
             'CPython (validated per path on a solver witness). repr(float) is not modelled (would make the run inconclusive).'),
    'C13': dict(
        category='model_checking', design_ref='DESIGN.md section 3 C13',
        technique='symbolic execution of the real age-group functions on symbolic dates (z3 linear integer arithmetic); dateutil/datetime by validated LIA contracts; rule text as an independent LIA oracle',
        text='Both dates are solver variables over 1900-2100 (every year, month, day, leap years included), so each obligation covers all ~10^9 date pairs of the bound at once; '
             'rule-text equality (TF, 1 Jan-30 Sep), masters bands, option effects, ISO-string equivalence and birth-date monotonicity (two symbolic births) are z3 queries per path.',
        note='Trusted: the relativedelta/date/parse contracts (the arithmetic core is compared with the real dateutil on 88k-1.5M date pairs each run), z3 LIA. XC/ROAD rule-text equality is not asserted (the property restricts it to TF).'),
    'C19': dict(
        category='model_checking', design_ref='DESIGN.md section 3 C19',
        technique='one-step induction with a symbolic cache pre-state: the real cache functions executed symbolically (remembered answers and validator outcomes are solver Booleans), outcome == fresh-process outcome and invariant preservation as z3 obligations',
        text='Histories are covered by induction instead of enumeration: from any cache state satisfying "remembered answer == validator outcome" (every size 0..20, any key hit or miss, either expect_failure) '
             'one real call is shown to answer like a fresh process and to re-establish the invariant; 2-3 call sequences are explored on top. Counterexamples are replayed through the public API.',
        note='jsonschema and file I/O are stubs (uninterpreted outcome per file); facts about the bundled files are concrete runs of the plain library with sockets disabled, reported as such.'),
    'C05': dict(
        category='model_checking', design_ref='DESIGN.md section 3 C05, 2.3',
        technique='symbolic execution of the real scoring functions on two adjacent symbolic grid marks; doubles abstracted as reals with an uninterpreted monotone rounding function; z3 (cvc5 when z3 answers unknown) discharges order and bound obligations',
        text='For every table row the two marks k, k+1 are solver integers ranging over and beyond the tabulated range, so each obligation covers every adjacent pair of the row at once; '
             'order over arbitrary pairs follows by transitivity. The float abstraction (monotone rounding, monotone pow/square) is sound for order statements; candidate counterexamples are replayed on the real doubles.',
        note='Assumes IEEE rounding is monotone and libm pow is monotone in its base; values through pow are not modelled. Table lookups are exact (run-length If-trees). One known finding (Bulgarian U16 F 600 table typo).'),
    'C11': dict(
        category='model_checking', design_ref='DESIGN.md section 3 C11, 2.3',
        technique='bit-precise symbolic execution (IEEE-754 terms over a bit-vector mark) of the real table-scoring functions; cvc5 QF_BVFP decides code(k) != exact-rational oracle(k) per row and chunk of marks; finite table clauses exhaustively',
        text='The mark is a bit-vector, the doubles are exact IEEE terms, the oracle is exact integer arithmetic from the frozen reference tables: unsat means that for every mark of the chunk the '
             'library returns exactly the published/linear value irrespective of binary representation. Input forms number, int and m:ss.xx (the double parse_hms builds). Table equality, order and key reachability are finite and exhaustive.',
        note='Trusted: cvc5 1.0.3 QF_BVFP (z3 as second try), float(text) correctly rounded, reference/tables.json as stand-in for the published tables. Quick tier samples the Tyrving (row, chunk) jobs; thorough runs all. One known finding (Bulgarian U16 F 600 typo).'),
    'C01': dict(
        category='model_checking', design_ref='DESIGN.md section 3 C01, 2.3',
        technique='bit-precise symbolic execution of the real athlon_score.score (IEEE-754 terms, pow as an uninterpreted function on both sides); cvc5 QF_UFBVFP decides code(k) != formula on the exactly rounded mark; age -> factor selection and unknown pairs by z3 LIA / string paths',
        text='Per (row, age factor) one query over every mark k up to past the zero-point: the number fed to the formula equals floor/ceil of k*F/10^4 in exact arithmetic and the formula has the reference structure and coefficients; '
             'factor selection is checked for every age 1..130 with a symbolic age; unknown gender/event pairs give None.',
        note='pow is uninterpreted: whether libm pow lands on the right side of an integer is outside the claim (C09 is not applicable for the same reason). Quick tier samples the (row, factor) queries; thorough runs all 52 rows x every factor column.'),
    'C02': dict(
        category='model_checking', design_ref='DESIGN.md section 3 C02, 2.5',
        technique='one-step induction: the real HighJumpCompetition executed symbolically from a symbolic pre-state (symbolic heights, symbolic result-card strings, flags tied to the cards by a checked invariant) with one arbitrary call; z3 obligations for refusal/acceptance/log/state-order',
        text='Call histories are not enumerated: every state of the regular phase and of the first jump-off height within the bounds is a solver variable assignment, one real call is executed from it, and the clauses are z3 obligations over '
             'pre/post terms; the invariant is shown inductive, so histories of any length inside the bounds are covered. Counterexamples are rebuilt through the public API before being reported.',
        note='Trusted: the regular-phase / first- and second-jump-off-height representation invariant (highest_cleared_index among equal heights follows the code under test, probed concretely) (harness/hj.py), validated on every path by rebuilding the solver witness through the public API and comparing all fields, and inductively by clause inv; z3 LIA. Bounds: quick 2 athletes x 3 heights on the card, thorough 3 x 3; deeper jump-offs and from_matrix parsing are outside.'),
    'C03': dict(
        category='model_checking', design_ref='DESIGN.md section 3 C03, 2.5',
        technique='same one-step symbolic execution; post-state bests and places compared (z3) with the countback ranking computed from the cards alone; jump-off result clauses from first-jump-off-height pre-states',
        text='After every accepted trial from every symbolic pre-state within the bounds: best == greatest height on the card; whenever the post-state is won/finished/drawn/jumpoff the real places equal countback on the cards; '
             'a finished competition has one winner; after a jump-off the survivor is first and the other participants stay ahead of those not tied for first.',
        note='Trusted: the regular-phase / first- and second-jump-off-height representation invariant (highest_cleared_index among equal heights follows the code under test, probed concretely) (harness/hj.py), validated on every path by rebuilding the solver witness through the public API and comparing all fields, and inductively by clause inv; z3 LIA. Bounds: quick 2 athletes x 3 heights on the card, thorough 3 x 3; deeper jump-offs and from_matrix parsing are outside.'),
    'C08': dict(
        category='model_checking', design_ref='DESIGN.md section 3 C08, 2.5',
        technique='diamond (commutation) lemma by symbolic execution of two real calls in both orders from one symbolic pre-state; log-append lemma; card-determines-state by witness rebuild',
        text='Order independence is decided compositionally: for every pair of athletes and every two trial kinds the two orders are accepted alike and end in observationally equal states (z3 obligation over symbolic pre-states), '
             'which by induction on adjacent transpositions covers every interleaving that keeps each athlete\'s own sequence; with the log-append lemma and determinism this gives replay equivalence.',
        note='Trusted: the regular-phase / first- and second-jump-off-height representation invariant (highest_cleared_index among equal heights follows the code under test, probed concretely) (harness/hj.py), validated on every path by rebuilding the solver witness through the public API and comparing all fields, and inductively by clause inv; z3 LIA. Bounds: quick 2 athletes x 2 heights on the card (plus the three-athlete tie-order shapes), thorough 3 x 3; deeper jump-offs and from_matrix parsing are outside. to_matrix/from_matrix run on concretised witnesses only.'),
    'C14': dict(
        category='model_checking', design_ref='DESIGN.md section 3 C14',
        technique='symbolic execution of the real AgeGrader with a real-valued symbolic age, symbolic performance and symbolic gender/event spellings; doubles as reals with monotone rounding, quotients by symbolic values as an uninterpreted function with order facts; z3 (cvc5 fallback)',
        text='The age is a solver variable over the whole covered range (every interpolation interval is a path), so "defined, finite, positive" and the grade identity hold for every age, not for sampled ones; '
             'spellings are symbolic strings; order of grades for adjacent marks is an obligation over a symbolic mark. Finite facts (grade 1.0 at factor-1 ages, clamping past the last column, athlon bands) are exhaustive concrete runs, reported as such.',
        note='Float abstraction is sound for order/sign, the grade clause is a term identity; strictness of "grades higher" is not proved. One known finding (2015 table: no women\'s PV factors after 90).'),
    'C15': dict(
        category='model_checking', design_ref='DESIGN.md section 3 C15',
        technique='symbolic execution of the real distance-interpolation fallback (factor and best) with a symbolic integer distance rendered as digit cells; reals with monotone rounding; uninterpreted quotient with cross-multiplied bound facts; z3 with cvc5 fallback',
        text='Per pair of neighbouring running rows the distance is a solver integer over the whole interior of the segment, so betweenness of the factor and of the best time, and "not decreasing from d to d+1", hold for every whole metre (and every whole-kilometre N K code) at once; '
             'both ends of the table are separate segments (20 m .. first row, last row .. 400 km).',
        note='Float abstraction with 1e-12 tolerance; ages are sampled (47; thorough 23/47/66.5/91) because the age axis is C14; segments whose bracketing bests have inverted speeds are excluded from the increasing clause (listed in evidence). One known finding (mile rows located by table km but interpolated with a 1609 m mile).'),
    'C12': dict(
        category='model_checking', design_ref='DESIGN.md section 3 C12',
        technique='symbolic execution of the real check_performance_for_discipline on symbolic-character text templates (digit cells, separators, junk cell) per representative discipline; z3 path conditions and obligations on the digits of the returned text',
        text='Bounded symbolic checking over a grammar of entries: every digit and junk character is a solver variable, each path of the cascade of format heuristics is explored, and the clauses (only the caller\'s error class, well-formed '
             'fields below 60, plausible speed of the printed value, two-decimal field marks within 1.2 x record, integer multi-event scores, idempotence by running the real function on its own symbolic result) are decided per path.',
        note='Doubles are modelled by their exact real values under a stated gap assumption (quantities have at most three decimals; comparisons against 0.5/10/11/60/100/1.2*record); number formatting by the correct-rounding contract. '
             'Five known findings (non-idempotent corner cases of the heuristics), four fixed defects.'),
    'C18': dict(
        category='model_checking', design_ref='DESIGN.md section 3 C18',
        technique='differential symbolic execution: the JavaScript sources are parsed by node\'s acorn and interpreted (jsrun) on the same symbolic inputs, in the same engine path, as their Python twins loaded through the symrun hook; '
                  'z3 (cvc5 fallback) decides python == javascript per path; a QF_BVFP lemma (cvc5) for parseInt(a / 60); counterexamples and every path witness replayed under the real node and the plain library',
        text='Every ported pair runs on one symbolic input (marks k/100, whole numbers, digit-cell texts with symbolic separators, durations S + V/1e8, digit strings x precision); the obligation of each path is equality of the two results or refusal by both. '
             'Identical operation sequences give identical terms (decided by the simplifier), any difference goes to the solver. The duplicated tables and the normalisation of every table key are compared exhaustively (finite).',
        note='Doubles are reals with a monotone rounding function, so a counterexample is a candidate until node and python reproduce it (replayed before reporting); NaN from JavaScript counts as a refusal; texts with signs, blanks, exponents or radix prefixes and the '
             'pattern language of patterns.js are outside the claim. Quick tier samples (event, age, form) triples of the Tyrving tables; thorough runs all of them. Seven defects fixed (six in js/src, one in athlib/tyrving_score.py).'),
}

NOT_APPLICABLE = {
    'C09': 'solver-based checking cannot decide it: the claim is a two-sided inequality through libm pow() and its inverse at 78k concrete targets; '
           'SMT has no pow, an uninterpreted monotone stub cannot prove a round trip, and tabulating pow would be enumeration (DESIGN.md section 4)',
    'C16': 'the only free variable is the thread schedule; under symbolic execution every path is one concrete interleaving (schedule enumeration, a different '
           'technique) and neither CrossHair nor our engine models CPython threads (DESIGN.md section 4)',
}
PENDING = {}

def main():
    props = [json.loads(l) for l in open(os.path.join(HERE, 'properties.jsonl'))]
    checks = []
    na = []
    for p in props:
        pid = p['id']
        if pid in CLAIMED:
            c = CLAIMED[pid]
            checks.append({
                'property_id': pid,
                'quick_cmd': 'bin/check %s --tier quick' % pid,
                'thorough_cmd': 'bin/check %s --tier thorough' % pid,
                'evidence_file': 'evidence/%s.json' % pid,
                'replay_cmd_template': 'bin/check %s --replay {path}' % pid,
                'engine': c.get('engine', 'symrun'),
                'level_claimed': {'category': c['category'], 'text': c['text'], 'design_ref': c['design_ref']},
                'level_note': c['note'],
                'technique': c['technique'],
            })
        elif pid in NOT_APPLICABLE:
            na.append({'property_id': pid, 'reason': NOT_APPLICABLE[pid]})
        else:
            na.append({'property_id': pid, 'reason': PENDING.get(pid, 'not claimed in this commit: its solver-based check is still being built (see DESIGN.md section 3)')})
    m = {
        'version': 1,
        'setup_cmd': './setup.sh',
        'hooks': {
            'guard': 'ATHLIB_VERIF',
            'enable': 'none needed: the checks load /repo/athlib source through an import hook inside the checker process; /repo is not instrumented',
            'baseline_off_cmd': 'cd /repo && /venv/bin/python -m pytest -ra -q -p no:cacheprovider --timeout=900 --continue-on-collection-errors',
            'source_commits': [],
            'add_only': True,
        },
        'engines': [
            {'name': 'symrun', 'path': 'symrun/', 'serves_properties': sorted(k for k in CLAIMED if k != 'C04'),
             'kind_free_text': 'native symbolic execution of the real athlib source on proxy values (import hook + shadow builtins), path conditions and obligations discharged by z3 / cvc5'},
            {'name': 'jsrun', 'path': 'jsrun/', 'serves_properties': ['C18'],
             'kind_free_text': 'interpreter for the ESTree (node acorn) of js/src over the symrun values, so that the JavaScript port runs symbolically beside its Python twin; nodecall.js replays under the real node'},
            {'name': 'relang', 'path': 'vlib/relang.py', 'serves_properties': ['C04'],
             'kind_free_text': 'compiled regex -> z3 regular language; emptiness / equivalence queries'},
        ],
        'checks': checks,
        'not_applicable': na,
        'notes': 'exit 0 ok / 1 violation (VIOLATION line) / 2 inconclusive (never success). See DESIGN.md. Every check restores the library\'s module '
                 'state before each symbolic path and, except C04, carries a call-history clause (one earlier call of a stated kind, then the ordinary clauses: '
                 'DESIGN.md section 2.10); quick and thorough differ only in job lists and bounds, never in the deciding method.',
    }
    with open(os.path.join(HERE, 'MANIFEST.json'), 'w') as f:
        json.dump(m, f, indent=1)
    print('claimed', [c['property_id'] for c in checks]); print('n/a', [n['property_id'] for n in na])

if __name__ == '__main__':
    main()
