#!/usr/bin/env python
"""Run the repository's own test-suite with the import hook + AST pass + shadow
builtins active and no symbolic value anywhere: the instrumented code must
behave exactly like the plain code on the repo's own test inputs."""
import os, sys
sys.path.insert(0, os.path.dirname(os.path.dirname(os.path.abspath(__file__))))
from symrun import hook
hook.install()
import pytest
os.chdir(hook.REPO)
sys.path.insert(0, hook.REPO)
rc = pytest.main(['-q', '-p', 'no:cacheprovider', '--timeout=900', 'tests'] + sys.argv[1:])
import athlib
print('athlib loaded through hook:', sorted(set(hook.LOADED)))
sys.exit(int(rc))
