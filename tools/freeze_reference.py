#!/usr/bin/env python
"""Freeze the scoring tables of /repo's current tree into /verif/reference/tables.json (run once, by hand, with /venv/bin/python).
The frozen copy stands in for the published tables (which are not available in the sandbox): C11 compares the live tables
with it cell by cell, which is what detects an edited cell."""
import json, os, sys
sys.path.insert(0, os.environ.get('VERIF_REPO', '/repo'))
import athlib, athlib.bulgarian_score
ty = sys.modules['athlib.tyrving_score']
qk = sys.modules['athlib.qkids_score']
sh = sys.modules['athlib.sportshall_score']
bg = sys.modules['athlib.bulgarian_score']
asc = sys.modules['athlib.athlon_score']
def norm(x):
    if isinstance(x, dict):
        return {'__dict__': [[norm(k), norm(v)] for k, v in x.items()]}
    if isinstance(x, (list, tuple)):
        return [norm(v) for v in x]
    return x
out = {
    'tyrving': norm(ty._tyrvingTables),
    'qkids': norm(qk._qkidsTables), 'qkids_types': norm(qk._compTypeMap),
    'sportshall': norm(sh.RAWDATA),
    'bulgarian': norm(bg.scores),
    'athlon': norm(list(asc._scoring_table)),
}
dst = os.path.join(os.path.dirname(os.path.dirname(os.path.abspath(__file__))), 'reference', 'tables.json')
json.dump(out, open(dst, 'w'), separators=(',', ':'))
print('wrote', dst, os.path.getsize(dst))
