import pickle, json, glob, os, subprocess
idx = pickle.load(open('/verif/tools/design/parts.pkl', 'rb'))
G = lambda h: idx[h]

HEAD = '''# DESIGN — solver-based checking of openath/athlib

Status: built. Sections 0-2 describe the machinery as it now exists under
`/verif`; section 3 keeps, per property, the design paragraph written before the
build followed by an **As built** paragraph (what the check does today, its
bounds, what was corrected on the way); sections 8, 10 and 11 record the
defects repaired in `/repo`, the known findings, the seeded changes and which
check catches which, and the false alarms of the machinery that were corrected.
Numbers quoted as "measured" in sections 1-3 and 9 come from the round-0 probes
against `/repo` at `6f2daa5`; numbers in "As built" paragraphs come from the
checks themselves (evidence files). Properties are the 19 fixed entries of
`properties.jsonl`; they are not edited here.

'''

S0 = '''## 0. One-page summary

Technique (one family, as required): each property is decided by **symbolic
reasoning over the real code**. The relevant athlib functions are executed with
symbolic inputs — from `/repo`'s current source, re-read on every run — so that
marks, ages, digits, characters, dates, result cards, cache contents become SMT
variables; the property becomes an assertion over them; z3 / cvc5 either show
the assertion holds for every value inside the stated bounds or return a
model, which the check turns into a concrete call, **replays against the
uninstrumented library** (`/venv/bin/python`, plain `import athlib`; the real
`node` for the JS side) and only then reports. Sampling and enumeration of
concrete runs are never the deciding step; where only they could decide, the
property is declared not applicable. Finite sets of constants (table cells,
table keys, bundled files) are compared exhaustively and reported as such.
Two kinds of report do not come from a solver verdict and are labelled so: a
clause checked concretely along the history that rebuilds a high-jump witness
(`witness-history`, C02/C03/C08), and an answer of the long-lived witness
process that a fresh process does not give (`answer-depends-on-earlier-calls`
and history-prefixed clause scripts, §2.10 (ii)); both are replayed before
being printed, and every property also has solver-decided clauses for the
same ground where that was affordable (§2.10 (i), (iii)).

| id  | claimed | what is symbolic | engine / theory | oracle | main bound (quick / thorough) |
|-----|---------|------------------|-----------------|--------|------------|
| C01 | yes (pow stage abstracted) | mark `k` (centi-units, 64-bit), age, short gender/event strings | symrun + QF_UFBVFP (cvc5 binary) + LIA (z3) | exact integer arithmetic on the decimal mark; frozen coefficient table | every `k` past the zero-point per row, in chunks of 16384; quick samples (row, factor, chunk) jobs, thorough all; ages 1..130 |
| C02 | yes | whole competition state (cards, flags) + one call | symrun + LIA, one-step induction | rule model written from the property text | quick ≤2 athletes × ≤3 heights on the card; thorough ≤3 × ≤3; first and second jump-off height |
| C03 | yes | same state | same | countback + jump-off ranking from cards | same |
| C04 | yes (level proof) | the string, **no length bound** | regex→z3 `Re` | set algebra of the family languages | none (z3 character sort) |
| C05 | yes | adjacent marks `k`,`k+1` | symrun + reals with monotone rounding `R()` + monotone `PW()`/`SQ()`; tables as If-trees | order relation itself | every table row (767); marks over and beyond table range |
| C06 | yes | digits, precision, duration | symrun digit-cell strings + LIA; `%.Nf` by fixed-point contract | integer ceiling arithmetic | int part 0–4 digits, 0–7 fraction digits, prec 0–5; durations < 100 h |
| C07 | yes | every character of a template of the event-code grammar | symrun + symbolic `re` matcher + LIA | the patterns themselves (closure, idempotence, variant equality) | templates of the live parse tree: repeats at min and a larger count; variants; near-misses; three-call histories |
| C08 | yes (compositional) | state + two calls | as C02 | diamond/commutation, tie-order, log/card replay | quick 2 × 2 (+ three-athlete tie shapes); thorough 3 × 3 |
| C09 | **N/A** | — | — | — | needs libm `pow` accuracy at 78k concrete points |
| C10 | yes | as C07 (one or two codes) | as C07 + reals-with-rounding | family order, numeric order, digit-string order | as C07 |
| C11 | yes | mark `k`, input form | symrun + QF_BVFP (cvc5), LIA for Decimal | exact rational evaluation of the frozen table row | every row/age; chunks of 16384 marks; quick samples Tyrving chunks |
| C12 | yes (bounded grammar) | digits / separators / junk cell of the text | symrun + symbolic matcher + LIA/LRA (exact-real floats under a stated gap assumption) | shape/speed/record/idempotence predicates | 26 (quick) text templates × representative disciplines × gender × prec |
| C13 | yes | both dates, vets, underage | symrun + LIA; dateutil by validated contract | rule text in LIA | 1900–2100, age ≤ 110 |
| C14 | yes | age (real), performance, spelling cells | symrun + reals-with-rounding, uninterpreted quotient | definition of grade (term identity); order | both tables; quick 30 % of rows, three age windows |
| C15 | yes | distance (int → digit cells of four spellings) | same | betweenness / order with 1e-12 tolerance | every whole metre 20 m .. 400 km; `N K`, `N.d K`, `N M` spellings |
| C16 | **N/A** | — | — | — | the only free variable is the thread schedule |
| C17 | yes | age-group label (rendered int or free cells), event templates | symrun + LIA; C04 languages for table keys | numeric band order; PAT_THROWS membership | `U\\d+`, `V35..V130`, free ≤4 cells, 122 templates |
| C18 | yes | mark, digits, separators, duration, text cells | symrun (Python) ∥ jsrun (ESTree of js/src) in one path, reals-with-rounding; QF_BVFP lemma | the Python twin (differential) | every Tyrving/QuadKids row and age × 8–9 input forms (quick: one per event + hand-timed sprints); digit shapes; texts ≤ 4–5 cells |
| C19 | yes | cache contents, call key, validator outcome | symrun + stubs for jsonschema/file I/O | same call on an empty cache | cache size 0..20, call sequences of 2 |

Two properties go under `not_applicable` in MANIFEST.json (C09, C16, reasons in
§4). C01 is claimed with an explicitly abstracted `pow` stage. Everything else
is claimed within bounds written in §3 and repeated in each evidence file.
NFIXED genuine defects were repaired in `/repo` (one `fix:` commit each, §8), NKNOWN
more are recorded as known findings (§8), NSEEDS seeded changes from blind
sub-agents were tried against the checks (§10).

'''

S2 = '''## 2. Machinery

Layout under `/verif` (as built):

```
setup.sh                  builds the overlay venv /verif/.venv (/venv site-packages via .pth + z3-solver, cvc5,
                          crosshair-tool from /opt/veriftools/wheels); called by bin/check, idempotent, offline
bin/check                 entry point: check <id> --tier quick|thorough [--replay f] [--only x]
vlib/core.py              Check (counters, known-finding matching, VIOLATION / KNOWN-FINDING lines, evidence writer),
                          PlainWorker (uninstrumented athlib under /venv/bin/python: one long-lived process for witness expressions,
                          one pristine process that forks a child per replay / clause script), history bisection
vlib/pool.py  main.py     16-process fork pool of jobs; dispatch to harness/<id>.py
vlib/relang.py casefold.py  E-RE: sre parse tree -> z3 Re (IGNORECASE included)
symrun/                   E-SYM: instrumented native symbolic execution of athlib
  hook.py                 import hook: /repo/athlib/*.py -> AST pass -> module dict with private shadow builtins
  values.py strings.py    SymBool SymInt SymFloat SymStr (cells with finite domains) AttStr ...
  engine.py               decision tree, re-execution DFS (recorded conditions compared on replay), interval shortcut,
                          syntactic decision reuse, obligations
  state.py                snapshot / restore of athlib's module state before every path (§2.10)
  floatmodel.py           reals with monotone rounding R, PW / SQ / DIVF stubs, axiom kinds
  cvc5_backend.py         SMT-LIB text to the cvc5 binary (QF_BVFP, and fallback when z3 says unknown)
  rematch.py templates.py symbolic backtracking matcher over sre parse trees; template generation from them
  dtoa.py shadow.py       '%.Nf' fixed-point contract; shadow int/float/str/max/min/len, %-formatting, table lookups
  shims/                  re (match / search / sub on symbolic strings), decimal (+ - * // %), functools (visible memo tables),
                          datetime/dateutil
jsrun/                    E-JS: estree.js (node's acorn), interp.py (interpreter over the symrun values),
                          nodecall.js + nodeclient.py (the real node, for witnesses and replays)
harness/Cxx.py hj*.py hc.py   one file per property; hc.Runner = explore + witness validation + counterexample replay
reference/tables.json     frozen copies of the junior score tables and the WA coefficient table (oracle data)
known_findings.json       see §2.8            seeded/<name>/   see §10
tools/                    mkmanifest.py, suite_under_hook.py, try_seed.sh, seed_regress.py, keep_seed.py, seed_prompt.py,
                          freeze_reference.py, design/ (this file's generator)
evidence/  replays/       written by the checks (replays/ is scratch, not committed)
```

Differences from the round-0 plan, in one place: there is no separate
SMT-LIB printer/pool for all queries (z3 is used in-process per path, SMT-LIB
text only goes to the cvc5 binary); the exact decimal view of a double is a
fixed-point *contract* on integers (symrun/dtoa.py), not a wide-FP-sort
encoding; the high-jump reference model lives in `harness/hj.py` (`CardModel`
for the solver side, `ORACLE_SRC` for the concrete replay side) rather than in
`reference/`; the CrossHair cross-check and the routine second-solver sample
of §2.6 were not built (CrossHair was only used in the round-0 probes; two
solvers are used where one answers `unknown`); the thorough high-jump bound is
3 athletes × 3 heights, not 3 × 4.

'''

S24 = '''### 2.4 E-JS — the JavaScript ports (as built)

`node --expose-internals jsrun/estree.js FILE` dumps the ESTree of a source
file with node's bundled acorn; `jsrun/interp.py` loads
`js/src/{utils,tyrving_score,qkids_score,patterns}.js` from that dump **on every
run** (nothing of the JavaScript is transcribed) and interprets the subset they
use: `var/let/const` with hoisting, functions / arrows / closures, `this` and
method calls, object literals with methods and getters, arrays (`indexOf map
filter reduce join slice push reverse sort ...`), strings (`indexOf lastIndexOf
slice substr substring split replace match trim toUpperCase startsWith endsWith
...`), template literals, regex literals (run through python `re` on concrete
event codes after a syntactic translation: ASCII `\\d \\w`, JS `\\s`, `$` = end of
input; on symbolic text only single-character-class patterns such as `/,/g`),
`for / for-in / while / if / switch / try / throw`, `typeof`, `==` vs `===`,
`parseInt / parseFloat / Number / isNaN / Math.*`, `toFixed`, ES imports and
`module.exports`. Values are the symrun values, so a JavaScript function and
its Python twin produce terms in one vocabulary inside one engine path, and
"same answer" is one obligation. JS-specific semantics are written once as
models: `ToNumber` / `parseInt` / `parseFloat` on digit cells build exactly the
terms of symrun's `int()` / `float()` shadows; `parseInt(number)` goes through
`ToString`, i.e. it is `trunc` for `1e-6 ≤ |x| < 1e21` and an arbitrary leading
digit 1..9 below that (over-approximation, forked on, decided by the replay);
`parseInt(a / 60)` for an integer `a` is the integer quotient (QF_BVFP lemma for
`0 ≤ a < 2^32`, discharged by cvc5 in each run); `x - 0`, `x * 1`, `x / 1` are
exact; `'' + n` renders a symbolic integer as digit cells; `'' + double` is not
modelled (unsupported). Anything the interpreter does not model raises
`Unsupported` → exit 2, never a silent skip. Replay and witness validation run
the real files under `node` (`jsrun/nodecall.js` rewrites the `import` lines to
`require`, which is what the package's Babel build does, and evaluates the
module unchanged otherwise). Validation: `tools/js_smoke.py` (36 concrete calls across the exported
functions, error cases included, interpreter == node); in each quick run every
path's witness is evaluated by node and compared with the interpreter's value
(3370 comparisons in the last run).

'''

AS_BUILT = {
'C01': '''**As built.** `harness/C01.py`. Per (reference row, age factor, chunk of 16384
marks) the real `athlon_score.score` runs on `fp.div(to_fp(k),100)` with `k` a
64-bit bit-vector; `pow` is `PWF` on both sides; cvc5 decides
`∃k: code(k) ≠ oracle(k)` where the oracle rounds the *decimal* mark exactly
(`floor/ceil(k·F/10^4)` in integers) and then applies the reference formula
structure with the frozen coefficients. Factor selection is a separate LIA job
per event with the age symbolic over 1..130 (below 35 → 1.0, band column,
clamp to the last column, "no masters factor" refused for masters ages only);
unknown (gender, event) pairs are short symbolic strings (→ `None`, never an
error); the ESAA option is checked to change the boys' 800 m only. Quick runs a
seeded sample of ~45 (row, factor, chunk) jobs plus all factor / unknown-pair
jobs (≈ 4 min), thorough every row × every factor column × every chunk.
Repaired on the way: binary rounding of marks (62dcd62), factor below the first
band (4572547), unknown pair with an age (c0d0b9e), events without a masters
factor below 35 (8153c65), table lookup before age factor / `_FUZZ`. Seeds 4/4.
Session 3: *history row jobs* - the zero-point chunk of the 800 m rows and two other rows again after one earlier
call for the same event with the other options (ESAA switched, a masters age): the bit-precise exactness clause must still
hold (a coefficient row edited in place was scored 769 instead of 861). Seeds 6/6.
''',
'C02': '''**As built.** `harness/hj.py`, `hj_run.py`, `C02.py`. Pre-state families: the
regular phase (states scheduled / started / won) for every shape
(n ≤ 2, H ≤ 3 quick; n ≤ 3, H ≤ 3 thorough; every combination of column counts,
every bar position), and the jump-off at its first height (family jo0: jump-off
just declared, jo1: bar set, attempts in progress; the bar may be any height) and
at its second height (jo0x / jo1x after a first height that every participant
failed, jo0o / jo1o after one that at least two participants all cleared). `CardModel`
links every flag to the symbolic card (attempt strings are `AttStr`: symbolic
length 0..3 over o/x/-/r). Clauses per call kind (7 kinds × bib × bar relation):
refusal ⇔ the rule text, refusal leaves every observable unchanged, accepted
call extends exactly one cell, log grows by exactly the call, state order never
decreases, `inv` (the post-state is again in the family). Every path's witness
is rebuilt through the public API and compared field by field; a witness that
cannot be rebuilt is exit 2, never VIOLATION; clauses are additionally checked
concretely on witnesses of paths that are unreachable as modelled. Repaired:
refused first bar height started the competition (6d88718), jump-off clearance
lowered the best (c5d1809). Seeds 4/4. Quick ≈ 45 s.
Session 3: the engine repair of §2.10 raised the quick tier from 5 679 to 9 430 explored paths (no new violation);
pre-states follow the code's best-column policy (below, C03). Seeds 6/6.
''',
'C03': '''**As built.** Same engine and bounds as C02 with the placing clauses: best ==
greatest height cleared on the card in every post-state; places == countback
(height, failures at it, failures up to it, ties share, no clearance →
unplaced) whenever the state is not jumpoff; in a jump-off the tied leaders are
ordered by the jump-off column; `jumpoff-result` from jo0/jo1 pre-states.
Seeds 4/4. *equal-height-moves-best-index* (a clearance at a bar equal to the
best moves `highest_cleared_index`) was first missed: the place error needs a
**second jump-off height** and a third athlete; the families jo0x/jo1x/jo0o/jo1o
and a three-athlete shape in the quick tier were added for it (before that the
check ended exit 2: states no longer reachable as modelled).
Session 3: `highest_cleared_index` is an internal field, so among several columns of the best height the pre-states now
follow what the code under test does (`hj.probe_hci_policy`: one concrete jump-off at a bar equal to the best, read back the
index) and the clauses judge only best height and places from the cards. With the seeded `>=` the pre-states are reachable
again (no more exit 2) and the solver finds the jump-off loser placed behind a non-participant; that needs three athletes on
three regular heights, so the quick tier carries that one shape for the second jump-off height (calls of one bib - the three
cards are symmetric - split by ranking order into 12 parallel jobs, ~60 s). Seeds 6/6 (the two `>=` variants included).
''',
'C04': '''**As built.** `harness/C04.py`, level `proof` (every obligation `unsat`, no
length bound). 0 false alarms after the translation was validated against the
real `re` on ~1200 strings per run; `$` is modelled as "optional final
newline" (CPython semantics), IGNORECASE by exact case-fold classes
(`vlib/casefold.py`, added when a seed used `re.IGNORECASE`). Sensitivity
controls (queries that must be `sat`) guard against a vacuous translation.
Repaired: `[sW]`→`[wW]` (6d8da1c), MILE case (06db6a8), FIELD_SORT_ORDER comma
(d0f0125). Seeds 3/3. ≈ 30 s.
''',
'C05': '''**As built.** 767 rows (athlon incl. masters bands 35/70/112, hungarian,
tyrving youngest/oldest age, qkids, bulgarian, sportshall). Bulgarian tables are
run-length If-trees over the integer key, not uninterpreted lookups (the UF
version was too slow). Axiom kinds of `R` are chosen per system (athlon needs
the error bound, others sign + monotonicity). z3 first (500 ms), cvc5 binary
when z3 says unknown. Known finding: Bulgarian U16 F 600 table typo (order
breaks at one cell). Repaired: hungarian clamp (2030e14), sportshall FUZZ /
units / SHJ (c316963, 76fb8cc, 3bad13f), bulgarian `+1e-6` (bc1e465). Seeds 5/5.
≈ 25 s.
Session 3: *history clause* for Tyrving races up to 400 m and every combined-events row: one mark is scored, another call
for the same row happens (a hand-timed text, resp. the masters-age / ESAA options, concrete mark), the adjacent mark is
scored - the order clause must hold, both orders. After the fourth seed round: hand-timed results are also asserted
non-negative (a clamp applied before the hand-timing correction gave -38 points), and the quick tier runs every tabulated age of
the jump / throw formulas (a retyped knee cell at age 12 of a four-age row sat between the two ages sampled before). Seeds 9/9.
''',
'C06': '''**As built.** Part A as designed (all shapes, prec 0–5, LIA on digit cells).
Part B does **not** use the IEEE model: the duration is a proxy pair
(`S = int(seconds)`, `V = round(frac·10^8)`) and `'%.Nf'` is the fixed-point
contract "the text shows round(x·10^N)" (general N, with an over-approximation
flag when N ≠ 8), closed by an LRA/LIA lemma per precision; the R-mode version
was too slow. Part C: digit templates against an exact sexagesimal oracle, and
arbitrary texts ≤ 4 cells (only ValueError may escape). Repaired: empty integer
part (e4c2b99), fractions below 1e-4 (7a7bec9). Seeds 4/4. ≈ 10 s.
Session 3: `parse_hms` history jobs (a text of the sibling shape - last field with / without a fraction, digits of its
own - parsed first, then every clause, the result type included). Seeds 6/6.
Session 4: `format_seconds_as_time` history jobs (`fmt-history`: one earlier call with a duration of its own - fresh symbolic
S in 0..59 and any V - at the same precision in the quick tier, every (prec, earlier prec) pair in the thorough tier; then every
clause of the frac8 job) and `round(frac, n)` on the fraction proxy (any W/10**n compatible with V, candidates replayed). Quick is
now ≈ 190 s (19863 paths, 83975 obligations). Honest status: the round-5 seed `frac-text-memo-millisecond-key` (memo keyed by
`(round(frac, 3), prec)`) is NOT reported as a violation - the run ends INCONCLUSIVE (exit 2) with "hash of symbolic float":
`dict.get` with a tuple key holding a symbolic float is not routed to the symbolic-key side table (`symrun/shadow.py sx_method`
only tests `is_sym(key)`, not `_key_sym(key)`); a one-line extension was tried, the run then did not finish within 200 s, and
the change was reverted untested rather than committed. Seeds 6/7.
''',
'C07': '''**As built.** 1449 main templates + 393 variant + 243 near-miss templates
generated from the live `PAT_EVENT_CODE` parse tree (quick); clauses: accepted
⇒ normal form accepted, idempotent, every variant (case swap, inserted
whitespace, trailing `0` / `.` / `.0` on a number group, unit spelling) gives
the same code and the same family set, near-misses are refused by both. Known
finding C07-ws-families: a spelling with inner whitespace ('100 H') matches only
the whitespace-tolerant family pattern while its normal form matches more
families. Repaired: trailing zeroes (1f9ab10), whitespace (7bb35f3),
`wtnum` (2f47312). Session 3 added the *history* clause (§2.10): for every base
template and slot, `f(u); f(s); f(u)` with `u` = the spelling `s` with one slot (or
one extra leading / trailing character) ranging over the near-miss alphabet; the
first and third outcome must agree (1 712 jobs in the thorough tier, three slots
per template plus append / prepend in the quick tier, ≈ 20 s). Seeds 4/4 (one
needed `SymStr.isupper/isalnum`, first flagged as ENCODING MISMATCH by the
witness replay; the upper-cased memo key needed the history clause and the
per-path store table); session 3: slots are also *inserted* characters (a memo keyed on the whitespace-free spelling
accepted `'1 500'` after `'1500'`). Seeds 6/6. ≈ 2.5 min.
''',
'C08': '''**As built.** Clauses: *commute* (two calls for different athletes in either
order reach the same observable state, every pair × 4 × 4 trial kinds),
*tie-order* (the order among equally ranked athletes inside `ranked_jumpers`
must be unobservable; three-athlete shapes), *log* (append-only), *replay*
(on the concretised witness after the call: `from_actions(actions)` and
`from_matrix(to_matrix())` rebuild the same observable state — these two run
concretely on witnesses, the matrix parser is not executed symbolically).
Seeds 4/4; two were missed at first and led to the tie-order and replay
clauses. Quick 2 × 2 (≈ 110 s), thorough 3 × 3.
Session 3: the replay clause reads `trials` at every new height while the witness history runs and compares the final list
with `from_actions().trials` (an incrementally cached `trials` differs). Seeds 6/6.
''',
'C10': '''**As built.** 881 single templates and 216 pair jobs (quick; hurdles
specifications sampled 600). Key tuples may hold floats (a seed made the mile
1609.344). The distance oracles are read from the matched digits, not through
the library (mile count = the whole run of leading digits; relay leg = digits
[.digits] with h/H, K, M; with a fraction `E-1 ≤ d ≤ E` because
`int(1000*float('2.3'))` may be one short in doubles) — two further seeded changes
(their scratch worktrees were lost when session 2 was cut off, so they are not
among the kept seeds) showed that the earlier oracles copied the library's
assumptions. Repaired: `discipline_sort_key` on valid codes (c023c5d), relays /
SDMR (507c62e), FIELD_SORT_ORDER. Seeds 3/3. ≈ 30–60 s.
Session 3: history jobs (all relay templates and a seeded sample of the others: the clauses of one code after the same
functions ran on another code of the same template). Seeds 5/5.
''',
'C11': '''**As built.** As designed, with two practical changes: the range of `k` is cut
into chunks of 16384 marks per cvc5 query (unchunked queries took up to 30
minutes), and the `m:ss.xx` form uses separate minute / centisecond variables
(no bit-vector division). Sportshall runs on `Decimal` proxies in LIA. Table
clauses (live == frozen reference, order, keys normalised) are exhaustive.
Known finding: Bulgarian U16 F 600 typo. Repaired: Tyrving key (c856a5c) and
the sportshall / bulgarian fixes listed under C05. Seeds 5/5. Quick samples
Tyrving chunks (≈ 3.5 min); thorough runs all.
Session 3: history jobs (central chunk of sprint rows after one hand-timed text for the same row); the decimal shim gained
`//` and `%` (linear for numeral divisors; 256-bit division when the integers are bit-vectors, because aligning
`Decimal(0.2)`'s 54 decimals overflows 64 bits). Seeds 7/7.
''',
'C12': '''**As built.** `harness/C12.py`. Text templates (digits, `.`/`,`, `:`/`;`, leading
`0:`/`00:`, blanks, one junk cell, empty) through the real function via the
symbolic matcher for `PAT_PERF`; disciplines are a list of representatives of
each behavioural class (not the C07 templates). Doubles are modelled by their
exact real values under a stated gap assumption (all compared quantities have
≤ 3 decimals, so a non-zero exact difference dwarfs the rounding error; exact
ties are outside the claim). Clauses: only the caller's error class; shape;
speed window of the printed value; field marks ≤ 1.2 × record, with the record
read from the table itself (not through the library's helper — a seed showed
why); multi-event integers; idempotence by running the real function on its own
symbolic result. Five known findings (non-idempotent corners of the
heuristics, §8) — one of them is a whole class (> 800 models) and is excluded
symbolically (`known_class`). Repaired: error class leak (9be007c), fields ≥ 60
(cc77d1d), `1:60` carry (de86b3d), three-digit field marks (78e0d7c), XC hour
form (11e9abc), and — found by the first end-to-end run of the thorough tier
(`DD:DDD` templates) — the 400 m `63:40 means 63.40` reading, which added
0.01 × a three-digit hundredths field to the seconds *after* the "above 99
seconds" rule and returned `'101'` for `'92:900'` (155050f). Seeds 4/4 (one after
correcting the oracle and a too-wide known-finding predicate); session 3 added history jobs for field events (the same
event validated for another gender first): Seeds 6/6. ≈ 2.5 min.
''',
'C13': '''**As built.** As designed. The `relativedelta(...).years` / `date` / ISO
`parse` contracts are compared with the real dateutil at start-up (88k–1.5M
date pairs, and a sweep of ISO texts incl. `dayfirst`). Seeds 4/4 (`dayfirst`
first surfaced as ENCODING MISMATCH → the option was added to the contract).
≈ 75 s.
Session 3: oracle-free history clause per category (same birth date asked for another day of the same month first; the
group must equal the one obtained after the library state is put back). Seeds 6/6.
''',
'C14': '''**As built.** R-mode only (no IEEE). `find_age`'s column scan is kept cheap by
an interval shortcut in the engine (atoms `var op numeral` decided from the
bounds already on the path). Concrete facts (grade 1.0 at factor-1 ages, null
columns) are exhaustive and reported as such. Known finding: 2015 table has no
women's PV factors after 90. Repaired: f3656f5, 4572547, f334ea6, 5ec6b3d,
70ef069, `nt`→`na`. Seeds 4/4 (one by the concrete facts). An exhaustive
table-cell fact was added at the end of session 2 (every row has one cell per age
column, missing only before the first tabulated age, every other cell a finite
positive number) because the quick tier's three age windows and 30 % row sample do
not reach a single mid-table cell; its first version demanded factors ≤ 1.5 and
raised 24 false alarms on the 2023 throws rows, whose factors exceed 1 by the
table's convention (corrected in session 3, §11). Session 3 also added an oracle-free history job for every row tabulated for
both genders (factor, best and grade after the same grader object answered for the other gender == the answers after the
library state is put back). Seeds 6/6. Quick ≈ 50 s, thorough ≈ 8 min.
''',
'C15': '''**As built.** The distance is an integer rendered as digit cells (`'1234'`
or `'12K'`), so `get_distance` itself runs symbolically; `distance / speed` is
an uninterpreted quotient with cross-multiplied facts for the bracketing
bests; tolerance 1e-12 relative. Known finding: mile rows located by table km
but interpolated with a 1609 m mile (a repair broke `test_interpolated_distance`
and was reverted). Spellings: bare metres, whole kilometres `N K`, tenths of a kilometre `N.d K`
(from 1 km) and whole miles `N M`; two-decimal kilometres and decimal miles are
outside. Seeds 4/4; *decimal-km-truncated* (`'10.5K'`) was missed until the
`N.d K` spelling was added. Quick: 2023 table, age 47 (≈ 4 min).
Session 3: history variants of every fourth bare-number segment (a concrete distance of the segment and a far-away
tabulated event asked first - scratch attributes `_fx` / `_fx1` / `_pfac` and remembered positions must not leak). After the
fourth seed round: two-decimal kilometre spellings `N.dd K` (a "strip redundant .0" helper turned `1.05K` into `15K`), and an
exhaustive fact about the data - the distance cell of every running row agrees with the distance of its own code to 0.1 % (the
segments are read from those cells, so a mistyped cell would move a segment boundary unnoticed; a first version also demanded
increasing order and was wrong: track rows precede road rows). Seeds 8/8.
''',
'C17': '''**As built.** As designed. Repaired: band comparison as strings (46c4a90),
ValueError without a weight (add8c8b). Seeds 3/3 (one exposed a harness bug:
a plain-library worker shared across `fork()`; fixed). ≈ 15 s.
Session 3: a history-dependent answer (module-level list extended in place) is caught through the long-lived witness
process (§2.10 (ii)): `answer-depends-on-earlier-calls`, and since the end of session 3 also by oracle-free history jobs (code
and weight after the same two functions answered for another event / gender / label with digits of its own == the answers after
the library state is put back). Seeds 5/5.
''',
'C19': '''**As built.** As designed; a second validator class was added to the symbolic
pre-state after a seed merged cache keys of different validators. Repaired:
ecda627. Seeds 3/3. ≈ 10 s.
Seeds 5/5 after session 3.
''',
}

C18 = '''### C18 — the JavaScript port agrees with Python

`harness/C18.py` + `jsrun/` (§2.4). Differential symbolic execution: for every
ported pair the Python function (symrun hook) and the JavaScript function
(interpreted from the ESTree of the file in `/repo/js/src`) run on the **same**
symbolic input in the **same** engine path; the obligation of a path is
`python result == javascript result`, or both refuse (an exception on either
side; a `NaN` result counts as JavaScript's refusal). Doubles are reals with
the monotone rounding function `R`: the same operation on the same operands is
the same term in both languages, so agreement of the operation sequences is
decided by z3's simplifier (`decided_syntactically` in the evidence) and any
difference — another constant, another order of operations, a different
truncation — goes to z3 (cvc5 when z3 says unknown) as a real query. Because `R`
over-approximates IEEE, a model is a candidate: it is replayed under the real
node and the plain library, up to 30 further models are requested if it does
not reproduce, and only a reproduced disagreement is printed as VIOLATION.
* `tyrvingScore` / `qkidsScore`: every row and age of the live Python tables ×
  input forms: `k/100` (k symbolic up to 2.5 × the base mark), whole numbers,
  and digit-cell texts `D.DD DDPDD DDDPDD DPD DDPD DD DDD D` (short races),
  `DCDDPDD DCDDPD DCDD DDCDDPDD DDDPDD DDDPD DDDD` (long races), `DPDD … DD`
  (field) where `P` is a cell over `.,` and `C` a cell over `:;.` — so hand-timed
  marks (fewer than two decimals), decimal commas and the `m.ss.xx` rewrite are
  inside. Quick: every event once with a rotating age/form plus 24 one-decimal
  texts on the hand-timed sprint distances; thorough: all (row, age, form).
* `roundUpStrNum`: integer part 0–3 digits × fraction 0–7 digits × prec 0–4.
* `isHandTiming`: every text of length 0..5 (6) over `0-9 . , :`, and numbers.
* `parseHms` / `str2num`: digit templates with `:` and `;`, and every text of
  length 1..4 (5) over `0-9 . : ;`.
* `formatSecondsAsTime`: whole seconds 0..359999 and `S + V/1e8` with the C06
  proxies (`'%.8f' % frac` and `frac.toFixed(8)` are the same fixed-point
  contract), prec 0–3, refusal for prec 4 and −1.
* tables: `_tyrvingTables`, `_qkidsTables`, `_compTypeMap` compared cell by cell
  (finite, exhaustive; a difference is replayed by reading the table out of the
  module under node); `normalizeEventCode` on every key of either table through
  both interpreters **and** both real runtimes (finite, exhaustive).
*Deviation from the design:* language equality of `patterns.js` and
`athlib.codes` is **not** checked. The property restricts normalisation to
scoring-table keys; `patterns.js` is a stale generated file (SSP, SCT, MILE,
relay sub-patterns differ), and flagging that would demand more than the
property states. *X*: texts with signs, blanks, exponents, radix prefixes
(`'0x1'` is 0 in JS and refused by Python) or more than 15 digits; marks
≥ 1e21; `'' + double`; error classes and messages; the JS high-jump and
age-group ports.
Defects found by this check and repaired (each shown under node before the
commit): hand-timing list searched for the mark, not the distance (eaf7e3a —
the defect named in the property text); `parseInt(number)` giving 1 point at
the zero-point mark (d241edc) and 5 s for `5e-7` s (7c00730); `roundUpStrNum`
empty integer part (bcf2ef9); `'' + frac` in exponent notation (d488621); the
JS table still keyed `'110H1cm9.14m'` after the Python repair (91077db); Python
`race_points` discarded the result of `v.replace(',', '.')`, so `'9,55'` was
refused by Python and scored by JS (25ce52e). Quick ≈ 80 s: 1932 paths, 1748
obligations (565 syntactic), 3370 witness values agreed with node / python.
Session 3: history jobs (sprint rows after one hand-timed call for the same row *in both languages*: a calculator object
kept between calls made Python score 959 where JavaScript scores 1000). The interpreted JavaScript modules are evaluated again
from their cached syntax trees before every path (`Interp.reset_modules`, registered with `symrun/state.py`; 34 ms), so
module-level state of the port cannot leak between paths either; a hand-made sticky flag on the JavaScript side is reported by
the same history jobs. Seeds 8/8.
'''

S210 = '''### 2.10 Re-execution, library state and call histories (added in session 3)

Three things the depth-first re-execution of §2.1 silently relied on are now enforced by the engine.

* **Replay-stable decisions.** A symbolic integer used as a list index or dict key is made concrete by
  forking over its feasible values; the candidate value used to come from the solver's current model, which
  differs between the recording run and a re-execution (the solver has seen different check calls). The
  recorded decision was then applied to another condition and whole values were skipped: C02's quick tier
  explored 5 679 paths before and 9 430 after the repair, C03 12 854, with no new violation. Candidates are now
  part of the recorded prefix, and **every** condition met while following a prefix is compared with the
  z3 term recorded for that position: identical term, or shown equivalent by a solver query (a set iterated in
  another order builds `Or(b, a)` for `Or(a, b)`; counted in the evidence), otherwise the job ends
  *inconclusive* ("re-execution diverged").
* **Library module state.** Before every path the engine puts back the module globals of every `athlib`
  module, the dicts / lists / sets reachable from them within four levels (those of at most 4 000 entries),
  the attribute dicts of instances of athlib classes and rebindable class attributes (`symrun/state.py`), to the
  snapshot taken at the first exploration of the process. A memo added to a pure function therefore cannot leak
  symbolic values of a dead path into the next one, and each path starts from the state of a fresh import (plus
  the harness's concrete warm-up calls). Comparison is by identity, so nothing symbolic is ever inspected.
* **Stores under a symbolic key.** `d[k] = v` statements are rewritten to `__sx_setitem__(v, d, k)`; with a
  symbolic string key the entry goes to a per-path side table (after forking on equality with the keys
  already present, so that keys stay pairwise distinct and `len` is exact), and `in`, `[]`, `.get` consult
  it. A cache keyed by (a function of) the argument is thereby modelled precisely instead of being
  concretised key by key. Iterating or popping such a dict is unsupported (exit 2).

* **What else hides state.** `functools.lru_cache` / `cache` keep their table in C: inside athlib's namespaces `functools` is a shim
  (`symrun/shims/functools_shim.py`) whose tables are python lists, emptied before every path, looked up with `==` on the argument
  tuples (python's `typed=False` semantics: `(1, 10)` and `(1, 10.0)` are one key) and forking on symbolic arguments. Dict keys may
  be symbolic strings, symbolic numbers and tuples of them; a lookup is ONE fork on the conjunction of the component equalities.
  Counterexample and clause scripts run in a child forked per request from a process that has imported athlib and never calls it,
  so every replay starts from the state of a fresh import (the earlier long-lived replay process made a sticky flag set by one
  replay hide the next one); only witness *expressions* run in a long-lived process, on purpose (below).

**Call histories.** Properties of the form "for every input, f(input) satisfies P" are implicitly about every
state of the process in which f is called. Two mechanisms look at that. (i) *Symbolic sequences*: C07 runs
`f(u); f(s); f(u)` for sibling spellings that share all cells but one and requires the first and the third
outcome to be equal (C19 has always been of this kind). (ii) *The replay process as a history*: witnesses are
evaluated in one long-lived plain process per pool worker, so its `athlib` has seen thousands of earlier calls.
When that process disagrees with the symbolic result, the same call is made in a fresh process; if the fresh
process agrees with the symbolic result, the difference is due to earlier calls: the recorded request log is
bisected to a shortest history that reproduces it (typically one call), each clause script of the harness is run
in a fresh process after that history, and one that fails is reported as VIOLATION with `replay = history +
clause script`. If the fresh process also disagrees it is an encoding error (exit 2) as before. (ii) is a
differential by-product of witness validation, not a solver verdict; it is what turned the seeded upper-cased
memo key of `normalize_event_code` from "exit 2" into a replayed violation before (i) existed. If no clause script
notices the changed answer (it is still well-formed), the two answers themselves are reported
(`answer-depends-on-earlier-calls`; replay = the expression in a forked child, the history, the expression again).
(iii) *Priming inside a path* (`hc.Runner.prime_body` / explicit calls in the body): an earlier call - with symbolic
inputs of its own where that is affordable (C06, C07, C10, C12, C13), with concrete arguments and enumerated options where
the solver cost is in the floats (C01, C05, C11, C14, C15, C18) - runs first with its clauses muted, then the ordinary
clauses are asserted in the state it left. Where no oracle is at hand the reference answer is obtained in the same
path: prime, `r1 = f(a)`, put the library state back (`hc.reset_library_state()`), `r0 = f(a)`, assert `r0 == r1`
(C13, C14). Replays of such counterexamples run the priming call first, in a pristine child.


'''

S5 = '''## 5. Bounds and what lies outside them (collected)

* Marks: integers `k` in centi-units (milli for durations) up to the per-row
  limit given in §3; doubles that are not on the grid are covered only in
  C06(b) (`S + V/1e8`), C14 (real age / performance) and C18 (same proxies).
* Strings: concrete length per template, repeat counts bounded as in C07;
  arbitrary-text clauses up to 4–6 cells.
* High jump: quick n ≤ 2, card width ≤ 3 (C08: ≤ 2 plus three-athlete tie
  shapes); thorough n ≤ 3, width ≤ 3; attempt strings ≤ 3 letters; regular phase
  and the first two jump-off heights (second height only after a uniform first
  column). Longer competitions are covered through the inductive step (clause
  `inv`), not by unrolling; third and later jump-off heights, and jump-offs with
  passes / retirements / mixed results in a completed column, are outside.
* Dates: 1900–2100, age ≤ 110.
* Caches: 0..20 entries, sequences of 2 calls.
* Call histories (every property but C04 and C19, whose subject they are): ONE earlier call, of the kind named in the
  property's paragraph of §3 (sibling spelling, other gender, other options, hand-timed text, neighbouring date, sibling
  shape), symbolic where affordable and concrete otherwise; C07 sequences of three. Longer histories, and histories mixing
  different library functions, are outside - except as they occur by chance in the long-lived witness process (§2.10 (ii)).
* Floats: IEEE double, round-to-nearest-even, no overflow/NaN inside the
  asserted ranges (C01, C11 bit-precise); elsewhere reals with monotone rounding
  (order/tolerance statements; candidates replayed) or exact reals under the
  stated gap assumption (C12); `pow`, `'%.Nf'`, dateutil, jsonschema, file I/O
  by contract.
* Not covered anywhere: `jsondict.py`, `create_2023_data.py`, `scripts/`, the JS
  high-jump and age-group ports, `patterns.js` as a language.

## 6. Cost (16 cores, measured on the built checks)

| tier | per property | whole set |
|------|--------------|-----------|
| quick | 10 s (C06, C17, C19) · 25–60 s (C04, C14, C05, C10, C13) · 1.5–2 min (C02, C08, C12, C18) · 3–5 min (C03, C07, C15, C11, C01) on an idle machine (measured end of session 3, VERIF_SEED=1) | ≈ 30 min serial |
| thorough | same harnesses with the full job lists (all Tyrving chunks, all factor columns, 3 × 3 high-jump shapes, all rows/ages of C14/C15, all C18 triples). End-to-end runs of session 3 (on a machine shared with two other runs): C17 19 s, C04 43 s, C13 82 s, C05 145 s, C18 245 s, C19 277 s, C10 301 s, C14 397 s, C12 743 s - all exit 0; C06 505 s ended exit 2 once (one `solver unknown` under load; the last solver attempt now gets three times the nominal budget) after 525 s exit 0 in session 2. C02 (4 496 shape × call jobs since the engine repair, 154 618 paths after 2 457 s, no violation, no inconclusive job so far) was stopped at 62 % to free the machine; C08 thorough (8 185 jobs since the engine repair) was still running after 40 min on an otherwise idle machine when the session's time ran out (no violation or inconclusive job printed until then; a second, seven-minute measurement gave 1 800 jobs in 411 s with the three-athlete, three-height shapes still to come, i.e. of the order of two hours in all); C03, C15, C07, C11, C01 were not run end to end in session 3 (C11 / C01 are hours of cvc5 time: every Tyrving chunk, every factor column) | hours, run with `vp run` |

A solver timeout, `unknown`, budget overrun or unsupported operation is exit 2.
Scratch files (SMT-LIB text for cvc5) are `tempfile`s removed after each query;
nothing under `/tmp` is needed by a registered command. The overlay venv is
created by `setup.sh` (MANIFEST `setup_cmd`) and, if missing, by `bin/check`.

## 7. Risks that materialised, and what was done

* The high-jump invariant closed for the regular phase and the first two
  jump-off heights; deeper jump-offs stayed outside (stated in the bounds).
* C07/C10/C12 template cost: solved by per-cell finite domains (domain splits
  instead of solver calls) and the boundary-count rule; hurdles specifications
  are sampled in C10 quick.
* R-mode cost (C05 athlon, C14, C15): incremental axioms, per-harness axiom
  kinds, paired monotonicity for two-copy harnesses, interval shortcut, cvc5
  fallback on z3 `unknown`, then z3 again with the full budget.
* A later change to `/repo` may use a construct the proxies do not model. The
  engine then stops with "unsupported" (exit 2). It never concretises silently.
  (An unsupported operation on a path whose condition is unsatisfiable is
  ignored: only feasible paths count.)

'''


def sh(cmd):
    return subprocess.run(cmd, shell=True, capture_output=True, text=True).stdout


def s8():
    kf = json.load(open('/verif/known_findings.json'))['findings']
    fixed = [k for k in kf if k['status'] == 'fixed']
    known = [k for k in kf if k['status'] == 'known']
    subj = {}
    for line in sh("git -C /repo log --format='%h%x09%s' 317f9ab..HEAD").splitlines():
        h, s = line.split('\t', 1)
        subj[h] = s
    out = ['## 8. Genuine defects: repaired and recorded\n\n',
           'Every entry below was first shown on the real code with a concrete input (the replay of a solver model, or for the\n'
           'first ones the round-0 probes), then either repaired by one minimal unguarded `fix:` commit in `/repo` (the 92-test\n'
           'suite, unedited, gives the same 92 pass / 3 pre-existing failures after each) or recorded as a known finding.\n'
           '`known_findings.json` holds both lists; a `fixed` entry suppresses nothing.\n\n',
           '### 8.1 Repaired (%d commits)\n\n| property | commit | what failed |\n|---|---|---|\n' % len(fixed)]
    for k in sorted(fixed, key=lambda k: (k['property'], k['id'])):
        import re as _re
        what = _re.sub(r'^fixed: property=\S+ ', '', k['what'])
        what = _re.sub(r'^%s ' % k['commit'], '', what).replace('|', '\\|')
        out.append('| %s | %s | %s |\n' % (k['property'], k['commit'], what))
    out.append('\n### 8.2 Known findings (recorded, not repaired)\n\n'
               'Not repaired because the repair is not small and safe: the data are wrong at the source (table typos, missing\n'
               'factors), the behaviour is a documented heuristic whose corner cases conflict with each other (C12), the\n'
               'pattern change would alter which codes are accepted (C07), or the obvious repair breaks an existing test (C15).\n'
               'Each entry is matched by function + failure kind + a predicate on the concrete input / observed output, so a\n'
               'different violation of the same property is still reported; the checks print one `KNOWN-FINDING:` line per entry hit.\n\n'
               '| id | what |\n|---|---|\n')
    for k in sorted(known, key=lambda k: k['id']):
        out.append('| %s | %s |\n' % (k['id'], k['what'].replace('|', '\\|')[:700]))
    out.append('\n')
    return ''.join(out)


def s10():
    rows = []
    for d in sorted(glob.glob('/verif/seeded/*/')):
        m = json.load(open(d + 'meta.json'))
        name = os.path.basename(d.rstrip('/'))
        what = ' '.join(m.get('what', '').split())
        import re as _re
        what = _re.sub(r'^Change( \d+)?:? ?', '', what.split('Manifests')[0].split('Trigger')[0])
        what = what[:260]
        rows.append((m['property'], name, what, ' '.join(str(m.get('detected_by', '')).split())))
    n = len(rows)
    miss = [r for r in rows if r[3].upper().startswith('NOT DETECTED')]
    out = ['## 10. Seeded changes: which check catches which\n\n',
           'Blind sub-agents (fresh context, given only the text of one property and a scratch git worktree of `/repo` under\n'
           '`/tmp`, nothing from `/verif`) produced source changes that break the property, keep the 92-test suite at its\n'
           'baseline and need a specific input to show. Each was confirmed by me in the scratch worktree (suite baseline, the\n'
           'agent\'s demo exits 0 without and 1 with the change), kept as `seeded/<name>/{patch.diff, demo.py, meta.json}`, then\n'
           'applied to `/repo` (`git apply`), the check run, and `/repo` restored (`git checkout -- .`); no seed was ever\n'
           'committed in `/repo`. `tools/try_seed.sh <patch> <id> <tier>` repeats this for one seed; from session 3 on the seeds are applied in\n'
           'scratch worktrees instead and the checks pointed at them with `VERIF_REPO` (`tools/seed_regress.py`, which also re-runs every kept seed).\n\n'
           '%d seeds kept; %d reported as VIOLATION by the quick tier of their property\'s check (several only after the check was\n'
           'strengthened — noted in the last column, and in §11); %d not detected. Re-run status at the end of session 3: every kept seed was\n'
           'run again in session 3 - the earlier seeds of C01–C10 after the engine repair, the 54 seeds of rounds 3 and 4 and the earlier seeds\n'
           'of C11–C19 against the final engine (`tools/seed_regress.py --older`), the five patches re-created after the last two repairs\n'
           'once more - and every one ended exit 1. Session 4 (33 minutes) added a fifth round of four blind seeds (C06, C14, C17, C19: all state-dependent memo/eviction changes); C14, C17, C19 were reported as VIOLATION by the unchanged checks, the C06 one (a memo of the rounded fraction text keyed by `(round(frac, 3), prec)`) made the check end INCONCLUSIVE (exit 2) both before and after the history clause for `format_seconds_as_time` was added - it is the one row marked NOT DETECTED below and the first open item for the next session. C01 and C11 sample their bit-precise jobs\n'
           'in the quick tier, so for a few seeds detection depends on VERIF_SEED (noted per seed); the thorough tier runs every job.\n\n' % (n, n - len(miss), len(miss)),
           '| property | seed | change | result |\n|---|---|---|---|\n']
    for r in rows:
        out.append('| %s | %s | %s | %s |\n' % (r[0], r[1].split('-', 1)[1], r[2].replace('|', '\\|'), r[3].replace('|', '\\|')))
    out.append('\nCross-detections seen while testing: the Bulgarian cell swaps are caught by both C05 (order) and C11 (table and exact '
               'value); the `passed()` failure-reset change was submitted independently for C02 and C08 and is caught by both; the Tyrving 400 m '
               'sign change (C05) is also a C11 `exact` violation.\n\n')
    return ''.join(out)


S11 = '''## 11. False alarms and blind spots of the machinery that were corrected

Alarms raised by a check on code that was right (corrected in the machinery,
never listed as findings), and misses found by the seeds:

* Suite under the hook: `test_athlib_all_is_mentioned` failed because the shadow
  builtins were visible in module globals → shadows moved into a module-private
  `__builtins__` dict; `tools/suite_under_hook.py` passes 92/92 of the baseline.
* `SymStr.isupper` used the wrong predicate for title-case letters; caught as
  ENCODING MISMATCH by the witness replay, fixed.
* A plain-library worker created before `fork()` was shared by pool workers
  (interleaved answers looked like library errors in C17) → one worker per pid.
* C13: an ISO date read with `dayfirst=True` first showed as ENCODING MISMATCH
  (contract lacked the option) → modelled and validated against dateutil.
* C12: exact decimal ties (36.365 printed to two places) depend on the binary
  value; first reported, then excluded from the claim and listed under
  `outside_claim`. Boundary-equality candidates of the exact-real model that do
  not reproduce are retried with other witnesses of the path, never reported.
  A first repair of the three-digit field mark created a new non-idempotent
  class; it was reset and redone (78e0d7c). The known finding
  `C12-rounding-crosses-speed-limit` matched *every* field result equal to its
  input and thereby hid the seeded unknown-gender change; its predicate now
  requires the result to lie within rounding of 1.2 × record. The field oracle
  used the library's own `field_event_record`; it now reads the table.
* C08/C03: two seeds passed unnoticed with 2 × 2 shapes and without an
  order-of-ties clause → quick bounds 2 × 3, new `tie-order` and `replay`
  clauses, concrete clause checks on unreachable-as-modelled witnesses.
* C01: the ESAA wrong-key seed passed until rows asserting "ESAA changes the
  boys' 800 m only" were added; `round()` on symbolic floats was unsupported.
* C19: merged validator keys passed until the pre-state held two validator
  classes.
* C05 (athlon) was inconclusive with sign-only axioms for `R` → error-bound
  axioms for those rows.
* Engine: an `Unsupported` raised on a dead path (trusted fork with an
  unsatisfiable condition) made whole jobs inconclusive → only feasible paths
  count. `R(R(x))` is now `R(x)` (rounding a double is exact). z3 `unknown`
  within 500 ms falls back to cvc5 (20 s) and then to z3 with the full budget.
* C18: the first version returned SymFloat for integer literals, so
  `'' + (i + 1)` was unsupported → integer literals of ≤ 15 digits stay integers.
  Witness values through an unevaluated `R` application are skipped (counted in
  the evidence), not compared.
* Session 3, C14: the table-cell fact added at the end of session 2 demanded
  factors in (0, 1.5]; the 2023 table's throws factors exceed 1 (up to 4.2 for
  W100 weight throw) by its convention, so the committed quick check printed 24
  VIOLATION lines on the unchanged tree. A check that demands more than the
  property states: corrected to "finite positive number", the property's words.
* Session 3, engine: model-chosen concretisation candidates made re-execution
  follow another branch than the one recorded (paths skipped, §2.10) → candidates
  recorded, every replayed condition compared with the recorded term, divergence
  = exit 2. The first version of the comparison (structural hash) flagged
  conditions that only differ in the order of a disjunction built from a set;
  such pairs are now accepted after a solver-checked equivalence.
* Session 3: a witness that the long-lived replay process answered differently
  from the symbolic run used to end as ENCODING MISMATCH (exit 2) even when the
  cause was the library remembering an earlier call; it is now separated from a
  true encoding error by a fresh-process evaluation and reported with its history
  (§2.10).
* Session 3, blind seeds round 3 (34 changes, most of them asked to depend on state or on a combination): nine were not reported
  at first - eight answers that depend on an earlier call (ESAA coefficients edited in place, a Tyrving calculator kept per event
  with a sticky hand-timing flag - submitted independently for C05, C11 and C18 -, `lru_cache` merging `(1, 10)` with `(1, 10.0)`,
  a relay-leg memo keyed by the bare number, field limits in one dict shared by the genders, junior lists extended in place, an
  incrementally cached `trials`) and `Decimal // Decimal(float)`, which the decimal shim did not model. All nine are reported now
  (§10); what it took is §2.10 (iii) and the per-property paragraphs of §3.
* Session 3, blind seeds round 4 (20 changes, explicitly *not* stateful: boundary and rounding slips, option combinations, helpers
  changed for one caller, shared regex / table edits, input forms): four were not reported at first, all because the symbolic
  executor met a construct it did not model and ended exit 2 rather than exit 1 - `re.sub` on a symbolic string (now run by the
  symbolic matcher, validated against `re` on 2 040 strings), an integer times a symbolic float (kept linear by forking on the small
  integer), `round(x, n)` and `'%s' % float` in a message (decimal rounding in the real model; opaque text), and a bit-precise
  candidate whose points do not change because `pow` is uninterpreted (such candidates are now excluded and further models
  requested). Two more would have been outside the quick tier's bounds and are inside now: a retyped cell at the third of four
  tabulated ages (C05 quick runs every age of the cheap formulas) and a mistyped *distance* cell of the 2015 table (C15's exhaustive
  row-distance fact; its first version also demanded increasing row order, which the tables do not have - corrected before it was
  ever committed as evidence).
* Session 3, two blind spots reported by the seeding sub-agents as "already broken on the unmodified tree" (they steered their
  demonstrations around them): (a) `check_performance_for_discipline('100', '0')` returned `'0.00'` - the C12 speed clause was
  written as `total > 0 ⇒ …`, copying the library's own `if distance and duration` guard, so the check and the code shared the
  exemption; the clause now demands a positive duration, the pre-fix tree is reported (replayed on 155050f), the defect is repaired
  (210f233). (b) `wma_age_factor('m', 8, '42')` raised TypeError - below the first running row the factor of the preceding
  weight-throw row was computed before being discarded, and that row has no factor at a child's age; C15 only used ages 23 and up.
  A child's age is now part of the below-the-table job, the pre-fix tree is reported (replayed on 210f233), the defect is repaired
  (7347373). Five kept seed patches touched the repaired lines and were re-created on the new HEAD (same edits; all five reported).
* `vp check` #1: evidence committed from a partial `--only` run, and
  `distinct_nontrivial` defined so that it could be 0 → evidence is committed
  from full quick runs only; the metric counts non-syntactic obligations plus
  reachability twins.

'''

doc = [HEAD, S0, G('## 1. Why this reaches what the tests cannot'), S2]
doc.append(G('### 2.1 E-SYM — "symrun": the real code, run natively on symbolic proxies')
           .replace("* **Obligations.** `assert_always(term, label)` inside a harness produces the\n  query `PC ∧ ¬term`. Queries are written as SMT-LIB 2 by our own printer,\n  de-duplicated by text, and discharged on a 16-process pool: Int/Bool/UF/LRA/\n  strings by z3 5.1 in-process, QF_BVFP/QF_UFBVFP over Float64 by cvc5 (wheel\n  1.4.0; wide sorts go to z3, §2.3), with z3 4.8.12 / cvc5 1.0.3 binaries as second opinion\n  on a sample in the thorough tier.",
                    "* **Obligations.** `Engine.check(term, label)` inside a harness produces the\n  query `PC ∧ ¬term`. Jobs (one harness body over all its paths) run on a\n  16-process pool; Int/Bool/UF/LRA queries go to z3 5.1 in-process (500 ms first,\n  then the cvc5 1.0.3 binary, then z3 with the full budget), QF_BVFP/QF_UFBVFP\n  over Float64 go to the cvc5 binary as SMT-LIB text (z3 as second try)."))
doc.append(G('### 2.2 E-RE — regular expressions as SMT languages, and a symbolic matcher'))
s23 = G('### 2.3 Two float models, and `pow`')
cut = s23.index('* **Exact decimal views of a double**')
doc.append(s23[:cut] + "* **Exact decimal views of a double** (`'%.2f' % x`, `'%.8f' % frac`): as built this is a\n  *contract* on integers (symrun/dtoa.py): the text shows `round(x·10^N)` — correct rounding,\n  ties either way — stated per harness; the wide-FP-sort encoding probed in round 0 is not used.\n* **Exact reals under a gap assumption** (C12 only): when every compared quantity has at most\n  three decimals, the doubles are replaced by their exact real values; the assumption and the\n  excluded exact ties are listed in the evidence.\n\n")
doc.append(S24)
doc.append(G('### 2.5 Inductive arguments for the high-jump state machine (C02, C03, C08)')
           .replace("(`/verif/reference/highjump_rules.py`, written from the", "(as built: `CardModel` in `harness/hj.py` for the solver side and `ORACLE_SRC` for the concrete replay side; written from the")
           .replace("Quick tier n ≤ 2, H ≤ 3;\nthorough n ≤ 3 with H ≤ 4 (H ≤ 6 for n = 2, n = 4 only for the calls that do not\nreach `_rank`'s tie logic); the bounds actually reached are written into the\nevidence, and lowered rather than timed out if the budget is exceeded.",
                    "As built: quick n ≤ 2, H ≤ 3 (C08: H ≤ 2 plus three-athlete tie shapes);\nthorough n ≤ 3, H ≤ 3; jump-off pre-states for the first jump-off height; the\nbounds reached are written into the evidence."))
s26 = G('### 2.6 How the encodings are kept honest')
cut = s26.index('4. **Two solvers.**')
doc.append(s26[:cut] + "4. **Two solvers.** As built, a second solver is used where the first answers `unknown` (z3 →\n   cvc5 → z3 for LIA/LRA/UF; cvc5 → z3 for QF_BVFP); the routine 5 % cross-check sample and the\n   CrossHair cross-check of the round-0 plan were not built.\n5. **Seeded changes** from blind sub-agents (§10) take the place of the planned hand-made\n   mutation self-test: NSEEDS realistic changes, each confirmed in a scratch worktree, applied to\n   `/repo`, checked, and reverted.\n\n")
doc.append(G('### 2.7 Verdicts, replay, exit codes'))
doc.append(G('### 2.8 Genuine defects: fixes and known findings'))
doc.append(G('### 2.9 Evidence').replace("obligations whose reachability twin is `sat` and whose assertion did not\nsimplify to `true`.", "obligations that did not simplify to `true` plus the reachability twins that came back `sat`."))
doc.append(S210)
doc.append(G('## 3. Per property'))
order = ['### C01 — combined-events points on the decimal mark', '### C02 — high jump: only rule-conforming trials are recorded',
         '### C03 — high jump: placings follow countback and the jump-off', '### C04 — event-code families: exact unions, disjoint kinds',
         '### C05 — a better performance never scores fewer points', '### C06 — decimal rounding, formatting and parsing of times',
         '### C07 — event-code normalisation', '### C08 — replaying the log or the card, in any order, rebuilds the competition',
         '### C09 — performance-needed is the exact inverse of the score — not applicable', '### C10 — every valid code can be sorted, measured and classified',
         '### C11 — table-based junior scoring reproduces the tables exactly', '### C12 — performance validation', '### C13 — UK age groups',
         '### C14 — WMA age grading on its domain', '### C15 — interpolation between distances is order-preserving',
         '### C16 — concurrent calls — not applicable', '### C17 — implement weights and weight-specific codes',
         '### C18 — the JavaScript port agrees with Python', '### C19 — schema validation answers do not depend on history']
for h in order:
    pid = h.split()[1]
    if pid == 'C18':
        doc.append(C18)
        continue
    body = G(h).rstrip('\n') + '\n'
    if pid in AS_BUILT:
        body += '\n' + AS_BUILT[pid]
    doc.append(body + '\n')
doc.append(G('## 4. Not applicable'))
doc.append(S5)
doc.append(s8())
doc.append(G('## 9. Probe log (this sandbox, round 0)').rstrip('\n') + '\n\n')
doc.append(s10())
doc.append(S11)
_kf = json.load(open('/verif/known_findings.json'))['findings']
text = ''.join(doc).replace('NSEEDS', str(len(glob.glob('/verif/seeded/*/')))).replace('NFIXED', str(sum(1 for k in _kf if k['status'] == 'fixed'))).replace('NKNOWN', str(sum(1 for k in _kf if k['status'] == 'known')))
open('/verif/DESIGN.md', 'w').write(text)
print(len(''.join(doc).splitlines()), 'lines')
