#!/usr/bin/env python3
"""print the prompt given to a blind seeding sub-agent for one property (only the property text + a scratch worktree)"""
import json, sys
pid = sys.argv[1]
n = int(sys.argv[2]) if len(sys.argv) > 2 else 2
wt = '/tmp/seed-%s' % pid
props = {json.loads(l)['id']: json.loads(l) for l in open('/verif/properties.jsonl')}
p = props[pid]
print(f"""You are helping to test a verification framework by seeding realistic bugs into a Python library.

The library is openath/athlib (track-and-field utilities: event-code regexes, performance parsing, scoring tables, age grading, a high-jump state machine; Python plus a JS port under js/). You have your own scratch git worktree of it at {wt} (work ONLY there; never touch /repo or /verif, and do not read anything under /verif). Run Python with /venv/bin/python; run the test-suite with:
  cd {wt} && /venv/bin/python -m pytest -q -p no:cacheprovider tests
(on the unmodified tree exactly 3 tests fail - test_hungarian_score x2 and test_fake_signatures - and 92 pass; that is the baseline). Since athlib is installed in /venv as an editable install of /repo, make sure your demonstrations import YOUR copy: run them with cwd={wt} or PYTHONPATH={wt} and check athlib.__file__.

Here is a semantic property of the library that is supposed to hold:

  Title: {p['title']}
  Statement: {p['statement']}
  Quantified over: {p['quantifier']['text']}

Your task: produce {n} DIFFERENT, independent source changes to the library (each a small realistic edit a developer might plausibly make: a refactor slip, an off-by-one, a wrong comparison, an over-eager optimisation, a changed constant or table cell, a regex tweak, two cooperating sites that each look fine alone ...) such that each change
  1. BREAKS the property above (for at least one input in the quantified domain),
  2. still imports/compiles and still passes the existing test-suite exactly as the baseline does (92 pass, the same 3 fail),
  3. needs something SPECIFIC to manifest - an unusual input, a boundary value, a particular combination or multi-step sequence - not something ordinary use would expose at once. Prefer subtle changes over blatant ones; do not simply delete functionality or raise exceptions unconditionally. Make the {n} changes of different KINDS: at least one of them should depend on state or on a combination - e.g. a memo/cache or scratch attribute that makes an answer depend on an earlier call, a value that is only wrong when two options or two unusual inputs meet, a helper changed in a way that is fine for every caller but one, an edit in a shared constant/regex/table that is harmless where it is made and wrong somewhere else - rather than a single wrong constant.
Each change should touch library source under {wt}/athlib (or {wt}/js/src if the property is about the JS port), not the tests.

For each change i = 1..{n} write, in the directory {wt}/OUT/ (create it):
  - patch<i>.diff : the change as a unified diff produced by `git -C {wt} diff` (so that `git apply` works on a clean checkout of the same commit),
  - demo<i>.py : a small self-contained program (run as `cd {wt} && /venv/bin/python OUT/demo<i>.py`) that exits with status 1 (and prints what it saw) when the property is violated and status 0 when it holds; it must exit 0 on the unmodified tree and 1 with the change applied,
  - note<i>.txt : 3-6 lines: what the change is, which input(s)/sequence make it manifest, and why the existing tests do not notice.
Work on one change at a time: edit, run the tests, run the demo, save `git diff` to the patch file, then `git -C {wt} checkout -- athlib js` to restore the tree before starting the next change (keep OUT/, which is untracked). At the end the worktree's tracked files must be back to the original commit. Verify for each patch that it applies cleanly to the clean tree (`git -C {wt} apply --check OUT/patch<i>.diff`).

Report back briefly: for each change, one line on what it is and the demo's output with and without it.""")
