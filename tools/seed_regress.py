#!/usr/bin/env python3
"""Regression of the checks against the kept seeded changes, without touching /repo:
each seed is applied in a scratch worktree of /repo's HEAD (under /tmp, removed afterwards) and the
check of its property runs with VERIF_REPO pointing at it.

usage: tools/seed_regress.py [--tier quick] [--only C07,C12-...] [--jobs 2]
Meant to be started with `vp run` (the evidence files written by these runs are not evidence of anything).
"""
import argparse
import concurrent.futures
import json
import os
import re
import subprocess
import sys
import time

HERE = os.path.dirname(os.path.dirname(os.path.abspath(__file__)))
SEEDS = os.path.join(HERE, 'seeded')


def sh(cmd, **kw):
    return subprocess.run(cmd, shell=True, capture_output=True, text=True, **kw)


def one(name, tier):
    d = os.path.join(SEEDS, name)
    meta = json.load(open(os.path.join(d, 'meta.json')))
    pid = meta['property']
    wt = '/tmp/sr_%s_%d' % (name, os.getpid())
    sh('git -C /repo worktree remove --force %s' % wt)
    r = sh('git -C /repo worktree add --detach %s HEAD' % wt)
    if r.returncode:
        return name, pid, 'worktree failed: ' + r.stderr[-200:], 9, 0
    try:
        r = sh('git -C %s apply %s' % (wt, os.path.join(d, 'patch.diff')))
        if r.returncode:
            return name, pid, 'patch does not apply: ' + r.stderr[-200:], 9, 0
        t0 = time.time()
        env = dict(os.environ, VERIF_REPO=wt)
        r = subprocess.run([os.path.join(HERE, 'bin', 'check'), pid, '--tier', tier], capture_output=True, text=True, env=env, cwd=HERE, timeout=5400)
        out = r.stdout
        labels = re.findall(r'^  ([\w:@.-]+): ', out, re.M)
        first = ''
        for l in out.splitlines():
            if l.startswith('VIOLATION'):
                first = 'VIOLATION'
                break
        summary = ('%s %s' % (first, ','.join(sorted(set(labels))[:4]))) if first else out.strip().splitlines()[-1][:160]
        return name, pid, summary, r.returncode, time.time() - t0
    finally:
        sh('git -C /repo worktree remove --force %s' % wt)
        sh('rm -rf %s' % wt)


def main():
    ap = argparse.ArgumentParser()
    ap.add_argument('--tier', default='quick')
    ap.add_argument('--only', default='')
    ap.add_argument('--jobs', type=int, default=2)
    ap.add_argument('--pending', action='store_true', help="only the seeds whose meta.json says detected_by == 'pending'")
    ap.add_argument('--older', action='store_true', help="only the seeds recorded against an earlier /repo commit than the current HEAD")
    a = ap.parse_args()
    names = sorted(n for n in os.listdir(SEEDS) if os.path.exists(os.path.join(SEEDS, n, 'patch.diff')))
    if a.only:
        keys = [k for k in a.only.split(',') if k]
        names = [n for n in names if any(n.startswith(k) for k in keys)]
    if a.pending:
        names = [n for n in names if json.load(open(os.path.join(SEEDS, n, 'meta.json'))).get('detected_by') == 'pending']
    if a.older:
        head = sh('git -C /repo rev-parse HEAD').stdout.strip()
        names = [n for n in names if json.load(open(os.path.join(SEEDS, n, 'meta.json'))).get('base_commit') != head]
    sh(os.path.join(HERE, 'setup.sh'))
    bad = 0
    with concurrent.futures.ThreadPoolExecutor(a.jobs) as ex:
        for name, pid, summary, rc, dt in ex.map(lambda n: one(n, a.tier), names):
            flag = 'DETECTED' if rc == 1 else ('INCONCLUSIVE' if rc == 2 else 'MISSED' if rc == 0 else 'ERROR')
            if rc != 1:
                bad += 1
            print('%-44s %s exit=%s %4.0fs  %s' % (name, flag, rc, dt, summary), flush=True)
    print('seeds not detected: %d of %d' % (bad, len(names)))
    return 0


if __name__ == '__main__':
    sys.exit(main())
