#!/usr/bin/env python3
"""Confirm a seeded change in its scratch worktree (suite as baseline, demo fails with / passes without the change)
and store it under /verif/seeded/<name>/.  usage: keep_seed.py <worktree> <i> <property> <name> <caught_by text> [check-cmd]"""
import json, os, shutil, subprocess, sys
wt, i, prop, name, caught = sys.argv[1:6]
checkcmd = sys.argv[6] if len(sys.argv) > 6 else 'bin/check %s --tier quick' % prop
out = os.path.join(wt, 'OUT')
patch = os.path.join(out, 'patch%s.diff' % i)
demo = os.path.join(out, 'demo%s.py' % i)
note = os.path.join(out, 'note%s.txt' % i)
def run(cmd, **kw):
    return subprocess.run(cmd, shell=True, cwd=wt, capture_output=True, text=True, **kw)
assert run('git diff --quiet').returncode == 0, 'worktree dirty'
r0 = run('/venv/bin/python OUT/demo%s.py' % i)
assert run('git apply OUT/patch%s.diff' % i).returncode == 0
try:
    r1 = run('/venv/bin/python OUT/demo%s.py' % i)
    t = run('/venv/bin/python -m pytest -q -p no:cacheprovider tests 2>&1 | tail -1')
finally:
    run('git checkout -- .')
suite = t.stdout.strip()
print('demo without:', r0.returncode, '| with:', r1.returncode, '| suite with:', suite)
ok = r0.returncode == 0 and r1.returncode == 1 and '92 passed' in suite and '3 failed' in suite
if not ok:
    print('NOT KEPT'); sys.exit(1)
dst = os.path.join('/verif/seeded', name)
os.makedirs(dst, exist_ok=True)
shutil.copy(patch, os.path.join(dst, 'patch.diff'))
shutil.copy(demo, os.path.join(dst, 'demo.py'))
meta = {
    'property': prop,
    'what': open(note).read().strip() if os.path.exists(note) else '',
    'needs_to_manifest': 'see "what"',
    'source': 'blind sub-agent given only the property text and a scratch worktree (%s)' % wt,
    'confirmed': {'demo_exit_without_change': r0.returncode, 'demo_exit_with_change': r1.returncode, 'suite_with_change': suite,
                  'demo_output_with_change': r1.stdout.strip()[-600:]},
    'base_commit': subprocess.run('git -C %s rev-parse HEAD' % wt, shell=True, capture_output=True, text=True).stdout.strip(),
    'ran': ['cd <worktree> && git apply patch.diff && /venv/bin/python -m pytest -q tests && /venv/bin/python demo.py',
            'git -C /repo apply patch.diff && %s ; git -C /repo checkout -- .' % checkcmd],
    'detected_by': caught,
}
json.dump(meta, open(os.path.join(dst, 'meta.json'), 'w'), indent=1)
print('kept', dst)
