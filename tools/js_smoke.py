"""interpreter (jsrun) vs the real node on concrete calls of the exported js/src functions; run with /verif/.venv/bin/python"""
import sys, json, subprocess
sys.path.insert(0, '/verif')
from jsrun import interp as J
I = J.Interp('/repo/js/src')
cases = [
 ('utils.js','roundUpStrNum',['12.34567',2]), ('utils.js','roundUpStrNum',['.0',0]), ('utils.js','roundUpStrNum',['9.999',2]),('utils.js','roundUpStrNum',['0.0010000000000047748',2]),
 ('utils.js','parseHms',['1:02:03.5']), ('utils.js','parseHms',['1::2']), ('utils.js','parseHms',['12;3']), ('utils.js','parseHms',['x']), ('utils.js','parseHms',[12.5]),
 ('utils.js','isHandTiming',['12.3']), ('utils.js','isHandTiming',['12.34']), ('utils.js','isHandTiming',[12.3]),
 ('utils.js','formatSecondsAsTime',[3599.1,0]), ('utils.js','formatSecondsAsTime',[65.001,2]), ('utils.js','formatSecondsAsTime',[3725.5,1]),('utils.js','formatSecondsAsTime',[5,4]),
 ('utils.js','normalizeEventCode',['60H68cm11.5m6.5m']), ('utils.js','normalizeEventCode',[' 4X100 ']), ('utils.js','normalizeEventCode',['jt 600 g']), ('utils.js','normalizeEventCode',['zz']),
 ('utils.js','normalizeEventCode',['110H100.0cm9.14m']),
 ('tyrving_score.js','tyrvingScore',['F',10,'60','9.5']), ('tyrving_score.js','tyrvingScore',['F',10,'60',9.25]), ('tyrving_score.js','tyrvingScore',['M',15,'HJ','1.75']),
 ('tyrving_score.js','tyrvingScore',['M',15,'PV',3.1]),('tyrving_score.js','tyrvingScore',['M',15,'1500','4:35.2']),('tyrving_score.js','tyrvingScore',['M',15,'XX',3.1]),('tyrving_score.js','tyrvingScore',['M',99,'PV',3.1]),
 ('qkids_score.js','qkidsScore',['QKSEC','100',12.3]), ('qkids_score.js','qkidsScore',['Quad Kids Secondary','800','2:45.1']), ('qkids_score.js','qkidsScore',['QKSEC','LJ','4.1']),('qkids_score.js','qkidsScore',['QK','LJ','4.1']),
 ('utils.js','getDistance',['5K']),('utils.js','discipline_sort_key',['100H']),('utils.js','text_discipline_sort_key',['HJ']),('utils.js','checkPerformanceForDiscipline',['100','12.345']),
]
p = subprocess.Popen(['node','/verif/jsrun/nodecall.js','/repo/js/src'], stdin=subprocess.PIPE, stdout=subprocess.PIPE, text=True)
def show(v):
    if isinstance(v, J.JSArray): return [show(x) for x in v.items]
    return v
bad = 0
for mod, fn, args in cases:
    p.stdin.write(json.dumps({'module':mod,'func':fn,'args':args})+'\n'); p.stdin.flush()
    real = json.loads(p.stdout.readline())
    try:
        ex = I.load(mod)
        r = I.call(I.get_member(ex, fn), J.UNDEF, list(args))
        mine = ('ok', show(r))
    except J.JSThrow as e:
        mine = ('throw', str(e))
    except BaseException as e:
        mine = ('ERR', type(e).__name__ + ': ' + str(e))
    def dec(v):
        if v['t'] == 'nan': return 'NaN'
        if v['t'] == 'arr': return [dec(x) for x in v['v']]
        return v.get('v')
    rv = ('ok', dec(real['value'])) if real.get('ok') else ('throw', real.get('error'))
    mm = mine
    if mine[0]=='ok' and isinstance(mine[1], float) and mine[1]!=mine[1]: mm = ('ok','NaN')
    same = (mm[0]==rv[0]) and (mm[0]=='throw' or mm[1]==rv[1])
    if not same: bad += 1
    print('OK ' if same else 'DIFF', fn, args, '->', mm, '' if same else rv)
print('bad', bad)
