"""E-RE: translate a compiled Python regular expression (its sre parse tree, read
from the live pattern object) into a z3 regular-language term.

Semantics modelled: `p.match(s) is not None` for str patterns without
look-around / back-references / possessive constructs (none of which occur in
athlib.codes; any unsupported node raises Unsupported).  `^` is accepted only
in head position, `$` only in tail position where it is modelled faithfully
as an optional final newline.  A pattern that does not end in `$` accepts any
continuation (prefix semantics of match()).

Character classes \\d and \\s are the exact code-point sets of the running
interpreter's `re`, obtained by sweeping range(0x110000) once.
"""
import re
import re._parser as sp
import re._constants as sc
import functools

import z3

MAXCHAR = 0x2FFFF  # z3's unicode character range


class Unsupported(Exception):
    pass


@functools.lru_cache(None)
def category_ranges(cat_name):
    """Exact code-point ranges of a category according to the real `re`."""
    pat = {'CATEGORY_DIGIT': r'\d', 'CATEGORY_SPACE': r'\s', 'CATEGORY_WORD': r'\w'}[cat_name]
    rx = re.compile(pat)
    ranges = []
    start = None
    for cp in range(0x110000):
        if 0xD800 <= cp <= 0xDFFF:
            hit = False
        else:
            hit = rx.match(chr(cp)) is not None
        if hit and start is None:
            start = cp
        elif not hit and start is not None:
            ranges.append((start, cp - 1))
            start = None
    if start is not None:
        ranges.append((start, 0x10FFFF))
    return tuple(ranges)


def _chr(cp):
    return z3.StringVal(chr(cp)) if cp < 0xD800 or cp > 0xDFFF else None


def _range(lo, hi):
    hi = min(hi, MAXCHAR)
    if lo > hi:
        return None
    # avoid surrogates as range end points (python cannot encode them for z3)
    parts = []
    for a, b in ((lo, min(hi, 0xD7FF)), (max(lo, 0xE000), hi)):
        if a <= b:
            if a == b:
                parts.append(z3.Re(z3.StringVal(chr(a))))
            else:
                parts.append(z3.Range(z3.StringVal(chr(a)), z3.StringVal(chr(b))))
    if not parts:
        return None
    return parts[0] if len(parts) == 1 else z3.Union(*parts)


def _union(parts):
    parts = [p for p in parts if p is not None]
    if not parts:
        return z3.Empty(z3.ReSort(z3.StringSort()))
    return parts[0] if len(parts) == 1 else z3.Union(*parts)


ANYCHAR = z3.AllChar(z3.ReSort(z3.StringSort()))
FULL = z3.Full(z3.ReSort(z3.StringSort()))
EPS = z3.Re(z3.StringVal(''))


_IC = [False]


def _cps_regex(cps):
    cps = sorted(c for c in cps if c <= MAXCHAR)
    parts = []
    i = 0
    while i < len(cps):
        j = i
        while j + 1 < len(cps) and cps[j + 1] == cps[j] + 1:
            j += 1
        parts.append(_range(cps[i], cps[j]))
        i = j + 1
    return _union(parts)


def _charset_ic(items):
    """IN node under re.IGNORECASE: exact sre semantics through vlib.casefold"""
    from . import casefold
    negate = False
    members = set()
    cats = []
    for op, av in items:
        if op is sc.NEGATE:
            negate = True
        elif op is sc.LITERAL:
            members.add(av)
        elif op is sc.RANGE:
            if av[1] - av[0] > 4096:
                raise Unsupported('wide range under IGNORECASE')
            members.update(range(av[0], av[1] + 1))
        elif op is sc.CATEGORY and str(av) in ('CATEGORY_DIGIT', 'CATEGORY_SPACE'):
            cats.append(_union([_range(a, b) for a, b in category_ranges(str(av))]))   # case-invariant classes
        else:
            raise Unsupported('charset item %s under IGNORECASE' % (op,))
    u = _union([_cps_regex(casefold.matching_chars(members))] + cats)
    if negate:
        return z3.Intersect(ANYCHAR, z3.Complement(u))
    return u


def _charset(items):
    """IN node -> z3 regex of single characters."""
    if _IC[0]:
        return _charset_ic(items)
    negate = False
    parts = []
    for op, av in items:
        if op is sc.NEGATE:
            negate = True
        elif op is sc.LITERAL:
            parts.append(_range(av, av))
        elif op is sc.RANGE:
            parts.append(_range(av[0], av[1]))
        elif op is sc.CATEGORY:
            name = str(av)
            if name.startswith('CATEGORY_NOT_'):
                base = 'CATEGORY_' + name[len('CATEGORY_NOT_'):]
                inner = _union([_range(a, b) for a, b in category_ranges(base)])
                parts.append(z3.Intersect(ANYCHAR, z3.Complement(inner)))
            else:
                parts.append(_union([_range(a, b) for a, b in category_ranges(name)]))
        else:
            raise Unsupported('charset item %s' % (op,))
    u = _union(parts)
    if negate:
        return z3.Intersect(ANYCHAR, z3.Complement(u))
    return u


def _seq(items, head, tail):
    """Translate a sequence; returns (regex, anchored_end)"""
    items = list(items)
    out = []
    anchored = False
    n = len(items)
    for i, (op, av) in enumerate(items):
        is_head = head and i == 0
        is_tail = tail and i == n - 1
        if op is sc.AT:
            if av is sc.AT_BEGINNING or av is sc.AT_BEGINNING_STRING:
                if not is_head:
                    raise Unsupported('^ not in head position')
                # stays in head position for what follows
                head_next = True
                if i + 1 < n:
                    # propagate head to the next item by re-labelling
                    rest, anch = _seq(items[i + 1:], True, tail)
                    out.append(rest)
                    return (_concat(out), anch)
                continue
            if av is sc.AT_END:
                if not is_tail:
                    raise Unsupported('$ not in tail position')
                out.append(z3.Option(z3.Re(z3.StringVal('\n'))))
                anchored = True
                continue
            if av is sc.AT_END_STRING:
                if not is_tail:
                    raise Unsupported('\\Z not in tail position')
                anchored = True
                continue
            raise Unsupported('AT %s' % (av,))
        r, anch = _node(op, av, is_head, is_tail)
        out.append(r)
        if is_tail:
            anchored = anch
    return (_concat(out), anchored)


def _concat(parts):
    if not parts:
        return EPS
    return parts[0] if len(parts) == 1 else z3.Concat(*parts)


def _node(op, av, head, tail):
    """returns (regex, anchored_end).  When `tail` is true and the node is not
    end-anchored the caller appends FULL (prefix semantics)."""
    if op is sc.LITERAL:
        if _IC[0]:
            from . import casefold
            return (_cps_regex(casefold.matching_chars([av])), False)
        return (_range(av, av), False)
    if op is sc.NOT_LITERAL:
        if _IC[0]:
            from . import casefold
            return (z3.Intersect(ANYCHAR, z3.Complement(_cps_regex(casefold.matching_chars([av])))), False)
        return (z3.Intersect(ANYCHAR, z3.Complement(_range(av, av))), False)
    if op is sc.ANY:
        # '.' without DOTALL: anything but newline
        return (z3.Intersect(ANYCHAR, z3.Complement(z3.Re(z3.StringVal('\n')))), False)
    if op is sc.IN:
        return (_charset(av), False)
    if op is sc.BRANCH:
        alts = []
        anchs = []
        for alt in av[1]:
            r, a = _seq(alt, head, tail)
            if tail and not a:
                r = z3.Concat(r, FULL)
                a = True
            alts.append(r)
            anchs.append(a)
        return (z3.Union(*alts) if len(alts) > 1 else alts[0], all(anchs) if tail else False)
    if op is sc.SUBPATTERN:
        group, add_flags, del_flags, sub = av
        if add_flags or del_flags:
            raise Unsupported('inline flags')
        return _seq(sub, head, tail)
    if op in (sc.MAX_REPEAT, sc.MIN_REPEAT):
        lo, hi, sub = av
        r, _ = _seq(sub, False, False)
        if hi is sc.MAXREPEAT:
            if lo == 0:
                return (z3.Star(r), False)
            if lo == 1:
                return (z3.Plus(r), False)
            return (z3.Concat(z3.Loop(r, lo, lo), z3.Star(r)), False)
        if lo == 0 and hi == 1:
            return (z3.Option(r), False)
        return (z3.Loop(r, lo, hi), False)
    raise Unsupported('regex node %s' % (op,))


def to_z3(pattern):
    """z3 regular language L with  s in L  <=>  pattern.match(s) is not None."""
    if isinstance(pattern, str):
        pattern = re.compile(pattern)
    if pattern.flags & ~(re.UNICODE | re.IGNORECASE):
        raise Unsupported('flags %r' % pattern.flags)
    tree = sp.parse(pattern.pattern, pattern.flags)
    _IC[0] = bool(pattern.flags & re.IGNORECASE)
    try:
        r, anchored = _seq(tree, True, True)
    finally:
        _IC[0] = False
    if not anchored:
        r = z3.Concat(r, FULL)
    return r


def node_kinds(pattern):
    """set of sre opcodes appearing in a pattern (for evidence)"""
    seen = set()

    def walk(items):
        for op, av in items:
            seen.add(str(op))
            if op is sc.BRANCH:
                for a in av[1]:
                    walk(a)
            elif op is sc.SUBPATTERN:
                walk(av[3])
            elif op in (sc.MAX_REPEAT, sc.MIN_REPEAT):
                walk(av[2])
    walk(sp.parse(pattern.pattern, pattern.flags))
    return seen
