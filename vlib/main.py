"""bin/check entry point: check <id> [--tier quick|thorough] [--replay file]"""
import argparse
import importlib
import json
import os
import sys
import traceback

from . import core


def replay(path):
    with open(path) as f:
        rec = json.load(f)
    script = rec.get('script')
    if not script:
        print('no script in replay file')
        return core.EXIT_INCONCLUSIVE
    runner = rec.get('runner', 'python')
    if runner == 'python':
        rc, out, err = core.run_plain(script)
    else:
        import subprocess
        p = subprocess.run(['node', '-e', script], cwd=core.REPO, capture_output=True, text=True, timeout=120)
        rc, out, err = p.returncode, p.stdout, p.stderr
    sys.stdout.write(out)
    if rc == 1:
        print('VIOLATION property=%s replay=%s' % (rec.get('property'), path))
        return core.EXIT_VIOLATION
    if rc == 0:
        print('replay did not reproduce a violation')
        return core.EXIT_OK
    sys.stdout.write(err[-2000:])
    return core.EXIT_INCONCLUSIVE


def main(argv=None):
    ap = argparse.ArgumentParser()
    ap.add_argument('pid')
    ap.add_argument('--tier', default=os.environ.get('VERIF_TIER', 'quick'))
    ap.add_argument('--replay')
    ap.add_argument('--only', default=None, help='harness-specific sub-selection (development)')
    a = ap.parse_args(argv)
    if a.replay:
        return replay(a.replay)
    tier = a.tier if a.tier in ('quick', 'thorough') else 'quick'
    try:
        seed = int(os.environ.get('VERIF_SEED', '0'))
    except ValueError:
        seed = 0
    mod = importlib.import_module('harness.%s' % a.pid)
    chk = core.Check(a.pid, tier, seed, level=getattr(mod, 'LEVEL', 'model_checking'))
    try:
        mod.run(chk, only=a.only)
    except core.Inconclusive as e:
        chk.inconclusive_note('%s' % e)
    except Exception as e:
        traceback.print_exc()
        chk.inconclusive_note('harness error: %s: %s' % (type(e).__name__, e))
    return chk.finish()


if __name__ == '__main__':
    sys.exit(main())
