"""Fan independent symbolic-execution jobs out over a fork()ed process pool and
fold their counters back into the Check object."""
import multiprocessing as mp
import os
import time
import traceback

from . import core

NPROC = int(os.environ.get('VERIF_NPROC', '16'))


class JobResult:
    def __init__(self):
        self.paths = 0
        self.obligations = 0
        self.discharged = 0
        self.trivial = 0
        self.queries = {}
        self.solver_s = 0.0
        self.reach_sat = 0
        self.witness_replays = 0
        self.records = []        # reproduced counterexamples (dicts for Check.report)
        self.inconclusive = []
        self.samples = []
        self.extra = {}

    def add_query(self, solver, n, dt):
        self.queries[solver] = self.queries.get(solver, 0) + n
        self.solver_s += dt


_worker_fn = None


def _run(job):
    try:
        return _worker_fn(job)
    except BaseException as e:      # Unsupported / Budget are BaseException
        r = JobResult()
        r.inconclusive.append('job %r: %s: %s' % (str(job)[:120], type(e).__name__, str(e)[:300]))
        if not type(e).__name__ in ('Unsupported', 'Budget'):
            r.inconclusive[-1] += ' ' + traceback.format_exc()[-600:]
        return r


def fold(chk, r, sample_cap=12):
    chk.paths += r.paths
    chk.obligations += r.obligations
    chk.discharged += r.discharged
    chk.trivial += r.trivial
    for k, v in r.queries.items():
        chk.queries[k] = chk.queries.get(k, 0) + v
    chk.solver_s += r.solver_s
    chk.reach_sat += r.reach_sat
    chk.witness_replays += r.witness_replays
    for rec in r.records:
        chk.report(rec)
    for w in r.inconclusive:
        if len(chk.inconclusive) < 40:
            chk.inconclusive_note(w)
        else:
            chk.inconclusive.append(w)
    for s in r.samples:
        chk.sample(s, sample_cap)
    for k, v in r.extra.items():
        if isinstance(v, (int, float)):
            chk.extra[k] = chk.extra.get(k, 0) + v
        elif isinstance(v, list):
            chk.extra.setdefault(k, [])
            if len(chk.extra[k]) < 50:
                chk.extra[k].extend(v[:50 - len(chk.extra[k])])


def run_jobs(chk, worker_fn, jobs, nproc=None, chunksize=1, progress=None):
    """worker_fn(job) -> JobResult; executed in fork()ed children (the parent must have
    installed the import hook and imported athlib already)."""
    global _worker_fn
    _worker_fn = worker_fn
    jobs = list(jobs)
    nproc = min(nproc or NPROC, max(1, len(jobs)))
    t0 = time.time()
    if nproc == 1 or os.environ.get('VERIF_SERIAL'):
        for i, j in enumerate(jobs):
            fold(chk, _run(j))
        return
    ctx = mp.get_context('fork')
    with ctx.Pool(nproc) as pool:
        n = 0
        for r in pool.imap_unordered(_run, jobs, chunksize):
            fold(chk, r)
            n += 1
            if progress and n % progress == 0:
                print('  .. %d/%d jobs, %d paths, %d obligations, %.0fs' % (n, len(jobs), chk.paths, chk.obligations, time.time() - t0), flush=True)
