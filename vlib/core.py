"""Common plumbing for every check: verdict bookkeeping, evidence, replay files,
known findings.  No property logic lives here."""
import hashlib
import json
import os
import re
import subprocess
import sys
import time

VERIF = os.path.dirname(os.path.dirname(os.path.abspath(__file__)))
REPO = os.environ.get('VERIF_REPO', '/repo')
PLAIN_PY = '/venv/bin/python'

EXIT_OK, EXIT_VIOLATION, EXIT_INCONCLUSIVE = 0, 1, 2


class Inconclusive(Exception):
    """Raised when a run cannot decide (unsupported construct, solver unknown,
    budget overrun, encoding mismatch).  Never reported as success."""


def src_hash(*relpaths):
    h = hashlib.sha256()
    for rp in relpaths:
        with open(os.path.join(REPO, rp), 'rb') as f:
            h.update(f.read())
    return h.hexdigest()[:16]


def load_known_findings():
    fn = os.path.join(VERIF, 'known_findings.json')
    if not os.path.exists(fn):
        return []
    with open(fn) as f:
        return json.load(f)['findings']


def _known_py(expr, rec):
    """optional python predicate of a known-findings entry over the record (rec) - for input classes a regex cannot express"""
    try:
        return bool(eval(expr, {'re': re, 'rec': rec, '__builtins__': {'int': int, 'float': float, 'len': len, 'abs': abs, 'min': min, 'max': max, 'sum': sum, 'enumerate': enumerate, 'reversed': reversed, 'list': list}}))
    except Exception:
        return False


def run_plain(script, timeout=120, env=None):
    """Run a python snippet against the uninstrumented library (plain import
    athlib from /repo's working tree) and return (exit, stdout, stderr)."""
    e = dict(os.environ)
    e.pop('PYTHONPATH', None)
    e['PYTHONHASHSEED'] = '0'
    if env:
        e.update(env)
    p = subprocess.run([PLAIN_PY, '-c', script], cwd=REPO, capture_output=True,
                       text=True, timeout=timeout, env=e)
    return p.returncode, p.stdout, p.stderr


class PlainWorker:
    """Plain-python processes (uninstrumented athlib) used to replay witnesses and counterexamples cheaply.

    * expressions (`eval`: witness values) run in ONE long-lived process, so its athlib has seen every earlier witness call -
      a natural call history; a disagreement with the symbolic result that a fresh process does not show is a history effect
      (harness/hc.py Runner._history_violation);
    * scripts (`run_script`: counterexample replays, clause scripts, history replays) run in a child forked per request from a
      second process that has imported athlib and never calls it itself: every script starts from the state of a fresh import."""
    DRIVER = r"""
import sys, json, os, traceback
sys.path.insert(0, REPO_PATH)
import athlib
FORK = FORK_FLAG
G = {'athlib': athlib}
exec("from decimal import Decimal\nimport datetime, re, math", G)

def handle(req):
    import io, contextlib
    if req.get('prelude'):
        try:
            with contextlib.redirect_stdout(io.StringIO()):
                exec(req['prelude'], {'__name__': '__replay__'})
        except BaseException:
            pass
    if req.get('script') is not None:
        buf = io.StringIO()
        code = 0
        try:
            with contextlib.redirect_stdout(buf):
                exec(req['script'], {'__name__': '__replay__'})
        except SystemExit as e:
            code = e.code if isinstance(e.code, int) else (0 if e.code is None else 1)
        except BaseException as e:
            code = 3
            buf.write('EXC ' + type(e).__name__ + ': ' + str(e))
        return {'code': code, 'out': buf.getvalue()[-2000:]}
    out = {}
    try:
        if req.get('setup'):
            exec(req['setup'], G)
        v = eval(req['expr'], G)
        out['ok'] = True
        out['value'] = v
        out['repr'] = repr(v)
        out['type'] = type(v).__name__
        try:
            json.dumps(v)
        except Exception:
            out['value'] = None
    except BaseException as e:
        out['ok'] = False
        out['exc'] = type(e).__name__
        out['msg'] = str(e)[:300]
        out['mro'] = [k.__name__ for k in type(e).__mro__]
    return out

for line in sys.stdin:
    req = json.loads(line)
    if FORK:
        r, w = os.pipe()
        pid = os.fork()
        if pid == 0:
            os.close(r)
            try:
                data = json.dumps(handle(req))
            except BaseException as e:
                data = json.dumps({'code': 3, 'out': 'EXC ' + type(e).__name__, 'ok': False, 'exc': type(e).__name__, 'msg': str(e)[:300]})
            os.write(w, data.encode())
            os._exit(0)
        os.close(w)
        chunks = []
        while True:
            b = os.read(r, 65536)
            if not b:
                break
            chunks.append(b)
        os.close(r)
        os.waitpid(pid, 0)
        data = b''.join(chunks).decode() or json.dumps({'code': 3, 'out': 'child died', 'ok': False, 'exc': 'ChildDied', 'msg': ''})
        sys.stdout.write("@@" + data + "\n")
    else:
        sys.stdout.write("@@" + json.dumps(handle(req)) + "\n")
    sys.stdout.flush()
"""

    def __init__(self):
        self.p = None
        self.fs = None
        self.calls = 0
        self.log = []        # every expression evaluated in the long-lived process, in order (the call history of its athlib import)

    @staticmethod
    def _spawn(fork):
        e = dict(os.environ)
        e.pop('PYTHONPATH', None)
        e['PYTHONHASHSEED'] = '0'
        src = PlainWorker.DRIVER.replace('REPO_PATH', repr(REPO)).replace('FORK_FLAG', 'True' if fork else 'False')
        return subprocess.Popen([PLAIN_PY, '-c', src], cwd=REPO, stdin=subprocess.PIPE, stdout=subprocess.PIPE,
                                stderr=subprocess.DEVNULL, text=True, env=e)

    def _ask(self, proc, req, what):
        proc.stdin.write(json.dumps(req) + "\n")
        proc.stdin.flush()
        while True:
            line = proc.stdout.readline()
            if not line:
                raise Inconclusive('plain worker died on %s' % what)
            if line.startswith('@@'):
                return json.loads(line[2:])
            # anything else is a stray print() of the library

    def _note(self, entry):
        self.log.append(entry)
        if len(self.log) > 6000:
            del self.log[:2000]

    def eval(self, expr, setup=None):
        self.calls += 1
        if self.p is None:
            self.p = self._spawn(False)
        self._note(('eval', expr, setup))
        return self._ask(self.p, {'expr': expr, 'setup': setup, 'script': None}, repr(expr))

    def run_script(self, script, prelude=None):
        """exec a replay script in a child forked from the pristine process; returns (exit code, stdout)"""
        self.calls += 1
        if self.fs is None:
            self.fs = self._spawn(True)
        d = self._ask(self.fs, {'script': script, 'prelude': prelude}, 'script')
        return d.get('code', 3), d.get('out', '')

    def eval_fresh(self, expr, setup=None, prelude=None):
        """evaluate expr in a child forked from the pristine process (after the optional prelude script)"""
        self.calls += 1
        if self.fs is None:
            self.fs = self._spawn(True)
        return self._ask(self.fs, {'expr': expr, 'setup': setup, 'script': None, 'prelude': prelude}, repr(expr))

    def close(self):
        for proc in (self.p, self.fs):
            if proc is None:
                continue
            try:
                proc.stdin.close()
                proc.wait(timeout=5)
            except Exception:
                proc.kill()


HISTORY_PRELUDE = r'''
# --- earlier calls made in the same process (the history this violation needs in order to show) ---
import io as _io, contextlib as _ctx, athlib as _athlib
_H = %s
_G = {'athlib': _athlib}
exec("from decimal import Decimal\nimport datetime, re, math", _G)
for _kind, _a, _b in _H:
    try:
        with _ctx.redirect_stdout(_io.StringIO()):
            if _kind == 'eval':
                if _b:
                    exec(_b, _G)
                eval(_a, _G)
            else:
                exec(_a, {'__name__': '__replay__'})
    except BaseException:
        pass
# --- the call under test ---
'''


def history_prelude(history):
    return HISTORY_PRELUDE % repr([list(h) for h in history])


_fresh = (None, None)


def _fresh_worker():
    """one fork server per process (never shared across fork())"""
    global _fresh
    if _fresh[0] != os.getpid():
        _fresh = (os.getpid(), PlainWorker())
    return _fresh[1]


def fresh_eval(expr, setup, history=()):
    """evaluate expr in a process with the state of a fresh import, after replaying `history` (PlainWorker log entries) in it"""
    return _fresh_worker().eval_fresh(expr, setup, history_prelude(history) if history else None)


def fresh_script(script, history=()):
    return _fresh_worker().run_script(script, history_prelude(history) if history else None)


def minimal_history(log, reproduces, cap=3000):
    """shortest piece of `log` found (by bisection on the start index, then the single first entry) after which
    reproduces(history) still holds; None when even the whole log does not reproduce"""
    full = list(log)[-cap:]
    if not full or not reproduces(full):
        return None
    lo, hi = 0, len(full) - 1          # invariant: full[lo:] reproduces
    while lo < hi:
        mid = (lo + hi + 1) // 2
        if reproduces(full[mid:]):
            lo = mid
        else:
            hi = mid - 1
    if reproduces([full[lo]]):
        return [full[lo]]
    return full[lo:]


class Check:
    """Book-keeping for one run of one property check."""

    def __init__(self, pid, tier, seed, level='model_checking'):
        self.pid = pid
        self.tier = tier
        self.seed = seed
        self.level = level
        self.t0 = time.time()
        self.functions = []          # real functions encoded (qualified names)
        self.stubs = []              # stubs / assumptions, part of the claim
        self.bounds = {}
        self.outside = []
        self.paths = 0
        self.obligations = 0
        self.discharged = 0
        self.trivial = 0             # obligations decided syntactically
        self.queries = {}            # solver -> count
        self.solver_s = 0.0
        self.reach_sat = 0           # reachability twins that came back sat
        self.witness_replays = 0     # models replayed on the plain library and agreeing
        self.samples = []
        self.violations = []         # (label, replay path)
        self.known_hits = {}         # finding id -> count
        self.notes = []
        self.extra = {}
        self.inconclusive = []
        self.known = [k for k in load_known_findings() if k.get('property') == pid]
        self._printed_known = set()

    # ---- accounting -------------------------------------------------
    def count_query(self, solver, dt):
        self.queries[solver] = self.queries.get(solver, 0) + 1
        self.solver_s += dt

    def sample(self, obj, cap=12):
        if len(self.samples) < cap:
            self.samples.append(obj)

    # ---- verdicts ---------------------------------------------------
    def match_known(self, record):
        """A known finding matches a *reproduced* concrete counterexample by
        function name + a regex over the canonical argument text + failure kind."""
        for k in self.known:
            if k.get('status') != 'known':
                continue
            m = k['match']
            if m.get('func') and m['func'] != record.get('func'):
                continue
            if m.get('kind') and m['kind'] != record.get('kind'):
                continue
            if m.get('args_regex') and not re.search(m['args_regex'], record.get('args_text', '')):
                continue
            if m.get('label_regex') and not re.search(m['label_regex'], record.get('label', '')):
                continue
            if m.get('job_regex') and not re.search(m['job_regex'], record.get('job', '')):
                continue
            if m.get('observed_regex') and not re.search(m['observed_regex'], record.get('observed', '')):
                continue
            if m.get('py') and not _known_py(m['py'], record):
                continue
            return k
        return None

    def report(self, record):
        """record: a reproduced counterexample: dict(label, func, kind, args_text,
        script, expected, observed, model).  Either a KNOWN-FINDING or a VIOLATION."""
        k = self.match_known(record)
        if k is not None:
            self.known_hits[k['id']] = self.known_hits.get(k['id'], 0) + 1
            if k['id'] not in self._printed_known:
                self._printed_known.add(k['id'])
                print('KNOWN-FINDING: property=%s %s [e.g. %s]' % (self.pid, k['what'], record.get('args_text', '')[:120]))
                sys.stdout.flush()
            return 'known'
        os.makedirs(os.path.join(VERIF, 'replays'), exist_ok=True)
        blob = json.dumps(record, sort_keys=True, default=str)
        h = hashlib.sha256(blob.encode()).hexdigest()[:12]
        path = os.path.join(VERIF, 'replays', '%s-%s.json' % (self.pid, h))
        record = dict(record, property=self.pid)
        with open(path, 'w') as f:
            json.dump(record, f, indent=1, default=str)
        if len(self.violations) < 25:
            print('VIOLATION property=%s replay=%s' % (self.pid, path))
            print('  %s: %s' % (record.get('label'), record.get('args_text', '')[:200]))
            print('  expected: %s | observed: %s' % (str(record.get('expected'))[:200], str(record.get('observed'))[:200]))
            sys.stdout.flush()
        self.violations.append((record.get('label'), path))
        return 'violation'

    def inconclusive_note(self, why):
        self.inconclusive.append(why)
        print('INCONCLUSIVE: %s' % why)
        sys.stdout.flush()

    # ---- evidence ---------------------------------------------------
    def finish(self):
        wall = time.time() - self.t0
        cov = {
            'functions_encoded': self.functions,
            'bounds': self.bounds,
            'outside_claim': self.outside,
            'paths': self.paths,
            'states': max(self.paths, 0),
            'transitions': max(self.obligations, 0),
            'obligations': self.obligations,
            'discharged': self.discharged,
            'decided_syntactically': self.trivial,
            'solver_queries': self.queries,
            'solver_time_s': round(self.solver_s, 2),
            'reachability_twins_sat': self.reach_sat,
            'traces_validated_against_impl': self.witness_replays,
            'evaluations': self.obligations,
            'distinct_nontrivial': max(self.obligations - self.trivial, 0) + self.reach_sat,
            'rule': 'cases = symbolic paths of the real code (each a distinct path condition, i.e. a distinct set of inputs) and the obligations '
                    'PC & not(property clause) stated on them; counted as non-trivial: every path whose path condition the solver showed satisfiable '
                    '(reachability twin, with a witness) plus every obligation that reached the solver (did not simplify to true after domain refinement)',
            'samples': self.samples,
            'known_findings_hit': self.known_hits,
            'inconclusive': self.inconclusive,
            'exhaustive': False,
        }
        cov.update(self.extra)
        ev = {
            'property_id': self.pid,
            'tier': self.tier,
            'seed': self.seed,
            'level': self.level,
            'coverage': cov,
            'assumptions': self.stubs + self.notes,
            'wall_s': round(wall, 2),
            'violations': len(self.violations),
        }
        os.makedirs(os.path.join(VERIF, 'evidence'), exist_ok=True)
        with open(os.path.join(VERIF, 'evidence', '%s.json' % self.pid), 'w') as f:
            json.dump(ev, f, indent=1, default=str)
        if self.violations:
            print('%s: %d violation(s); %d obligations, %d discharged, %.1fs' % (
                self.pid, len(self.violations), self.obligations, self.discharged, wall))
            return EXIT_VIOLATION
        if self.inconclusive:
            print('%s: INCONCLUSIVE (%d issue(s)); %d obligations, %d discharged, %.1fs' % (
                self.pid, len(self.inconclusive), self.obligations, self.discharged, wall))
            return EXIT_INCONCLUSIVE
        print('%s: OK tier=%s paths=%d obligations=%d discharged=%d (syntactic %d) witness-replays=%d known=%s solver=%.1fs wall=%.1fs' % (
            self.pid, self.tier, self.paths, self.obligations, self.discharged, self.trivial,
            self.witness_replays, dict(self.known_hits), self.solver_s, wall))
        return EXIT_OK
