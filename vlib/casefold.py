"""Exact model of sre's IGNORECASE (unicode) matching for single characters.

sre compiles a literal c under re.IGNORECASE to "lower(ch) == lower(c)" plus the
extra-case table (re._casefix._EXTRA_CASES); a character set is compiled to the
set of lower(c) of its members (plus their extra cases) and tested on lower(ch).
lower() here is _sre.unicode_tolower.  The inverse map is computed once by
sweeping all code points.
"""
import functools
import _sre
from re._casefix import _EXTRA_CASES


@functools.lru_cache(None)
def _inverse_lower():
    inv = {}
    for cp in range(0x110000):
        lo = _sre.unicode_tolower(cp)
        if lo != cp or _sre.unicode_iscased(cp):
            inv.setdefault(lo, []).append(cp)
    return inv


def lower(cp):
    return _sre.unicode_tolower(cp)


def fixed_targets(cps):
    """the compiled (lower-cased, extra-cased) target set for member code points cps"""
    out = set()
    for c in cps:
        lo = _sre.unicode_tolower(c)
        out.add(lo)
        for k in _EXTRA_CASES.get(lo, ()):
            out.add(k)
    return out


def matching_chars(cps):
    """all code points ch with lower(ch) in fixed_targets(cps)"""
    inv = _inverse_lower()
    out = set()
    for t in fixed_targets(cps):
        out.add(t) if _sre.unicode_tolower(t) == t else None
        for x in inv.get(t, ()):
            out.add(x)
        if t not in inv:
            out.add(t)
    # a target t always matches itself when lower(t) == t
    return {c for c in out if _sre.unicode_tolower(c) in fixed_targets(cps)}
